#!/usr/bin/env python3
"""Regenerates MANIFEST.json from checks_config.py + manifest_meta.py."""
import json, os, subprocess, sys
ROOT = os.path.dirname(os.path.abspath(__file__))
sys.path.insert(0, ROOT)
from checks_config import CHECKS
from manifest_meta import META, NOT_APPLICABLE, ENGINES

def hook_commits():
    out = subprocess.run(["git", "-C", "/repo", "log", "--format=%H %s"], stdout=subprocess.PIPE, text=True).stdout
    return [l.split()[0] for l in out.splitlines() if l.split(" ", 1)[1].startswith("verif:")]

m = dict(
    version=1,
    setup_cmd="./check --build",
    hooks=dict(guard="verif (Go build tag)", enable="go1.26.8 test -c -tags verif (done by ./check for every engine)",
               baseline_off_cmd="./baseline_off.sh", source_commits=hook_commits(), add_only=True),
    engines=ENGINES,
    checks=[],
    notes="Property-based testing / fuzzing with pgregory.net/rapid v1.3.0 on go1.26.8 (testing/synctest virtual clock). "
          "See DESIGN.md. Known findings: KNOWN_FINDINGS.txt.",
    not_applicable=[dict(property_id=k, reason=v) for k, v in sorted(NOT_APPLICABLE.items()) if k not in CHECKS],
)
for pid in sorted(CHECKS):
    meta = META[pid]
    c = dict(property_id=pid, quick_cmd="./check %s quick" % pid, thorough_cmd="./check %s thorough" % pid,
             evidence_file="evidence/%s.json" % pid, replay_cmd_template="./check --replay {path}",
             engine=meta["engine"],
             level_claimed=dict(category=CHECKS[pid].get("level", "exploration"), text=meta["text"], design_ref=meta["design_ref"]),
             level_note=meta["note"], technique=meta["technique"])
    m["checks"].append(c)
json.dump(m, open(os.path.join(ROOT, "MANIFEST.json"), "w"), indent=1)
print("MANIFEST.json: %d checks, %d not applicable" % (len(m["checks"]), len(m["not_applicable"])))
