# Texts for MANIFEST.json (per claimed property) and the not-yet-claimed list.
ENGINES = [
    dict(name="jsonrt", path="harness/jsonrt", serves_properties=["C07"], kind_free_text="rapid generators + reference transform for EEBUS JSON"),
]

META = {
    "C07": dict(
        engine="jsonrt",
        text=("Generated-input search (rapid) over JSON documents with a reference transform (shape), a round-trip oracle on an "
              "order- and literal-preserving tree, and an end-to-end envelope check; exploration, no absence proof."),
        design_ref="DESIGN.md 6/C07",
        note="trusted: Go's encoding/json tokenizer used by the harness tree parser; duplicate member names not generated",
        technique="property-based testing (rapid): round trip + reference-model shape oracle",
    ),
}

_pending = "machinery for this property is not built yet (work in progress, see DESIGN.md section 6)"
NOT_APPLICABLE = {("C%02d" % i): _pending for i in range(1, 21)}
