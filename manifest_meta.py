# Texts for MANIFEST.json (per claimed property) and the not-yet-claimed list.
ENGINES = [
    dict(name="jsonrt", path="harness/jsonrt", serves_properties=["C07"], kind_free_text="rapid generators + reference transform for EEBUS JSON"),
    dict(name="shipsim", path="harness/shipsim", serves_properties=["C01", "C03", "C04", "C06", "C07", "C08", "C09", "C11", "C14"],
         kind_free_text="two real ShipConnections + man-in-the-middle transport inside a testing/synctest bubble (virtual clock); rapid-generated scripts, JSON replay"),
    dict(name="wsfault", path="harness/wsfault", serves_properties=["C06", "C08", "C12", "C13", "C20"],
         kind_free_text="real ws.WebsocketConnection over gorilla/websocket over an in-memory fault-injecting net.Conn pair, synctest bubble"),
    dict(name="hubnet", path="harness/hubnet", serves_properties=["C01", "C05", "C09", "C10", "C11", "C15", "C17", "C18", "C20"],
         kind_free_text="2-3 real hub.Hub instances over loopback TLS+websocket, real MdnsManager on a harness mDNS fabric, per-pair TCP proxies; real time"),
    dict(name="hubsim", path="harness/hubsim", serves_properties=["C18"],
         kind_free_text="real hub.Hub inside a synctest bubble, harness plays the SHIP connections"),
    dict(name="certid", path="harness/certid", serves_properties=["C02"],
         kind_free_text="adversarial TLS/websocket client and server with generated certificates against a real started hub"),
    dict(name="zcnet", path="harness/zcnet", serves_properties=["C16", "C17", "C20"],
         kind_free_text="2-4 real MdnsManagers with the real zeroconf provider over real multicast sockets in one process; real time; skipped where multicast does not work"),
    dict(name="mdnssim", path="harness/mdnssim", serves_properties=["C08", "C16", "C17", "C19", "C20"],
         kind_free_text="real MdnsManager with fake provider / real AvahiProvider with a fake Avahi daemon / real hub as report sink, synctest bubble"),
]

_PBT = "property-based testing (rapid): "
_TB = ("trusted: the in-memory transport mirrors ws.WebsocketConnection towards the SHIP layer; events are atomic at handler granularity "
       "(interleavings inside one handler are not enumerated); virtual clock of testing/synctest on go1.26.8")

META = {
    "C01": dict(engine="shipsim", design_ref="DESIGN.md 6/C01", note=_TB,
                text="Generated adversarial histories (messages, timeouts, user actions, faults) against two real endpoints; invariant over the ordered "
                     "callback log that no trusted state, setup or payload occurs before local trust; plus a hub-level run in which a real peer keeps "
                     "knocking while the user registers / cancels / unregisters. Exploration: held on all generated histories.",
                technique=_PBT + "generated event histories, invariant over the callback history"),
    "C03": dict(engine="shipsim", design_ref="DESIGN.md 6/C03", note=_TB,
                text="Generated schedules (delivery order, user approve/cancel position, timer expiries, close propagation) over two real endpoints "
                     "in timely and arbitrary mode; agreement/completion oracle at stability. Liveness decided up to ten quiet virtual minutes.",
                technique=_PBT + "generated schedules on a harness-owned clock, agreement oracle at quiescence"),
    "C04": dict(engine="shipsim", design_ref="DESIGN.md 6/C04", note=_TB + "; edge table written from SHIP 1.0.1 13.4.3-13.4.6",
                text="Generated histories incl. write failure at the k-th write; every reported transition is checked against an explicit "
                     "specification edge table, phase order and finality clauses. Exploration.",
                technique=_PBT + "reference-model (state graph) conformance over generated histories with fault injection"),
    "C06": dict(engine="shipsim", design_ref="DESIGN.md 6/C06", note=_TB,
                text="Generated arrival interleavings of SPINE data frames with the remaining handshake (incl. bursts and floods); reader log must equal the "
                     "arrival sequence; plus a full-stack run (SHIP over the real websocket layer, slow receivers).",
                technique=_PBT + "history invariant (exactly-once, ordered, after completion)"),
    "C07": dict(engine="jsonrt", design_ref="DESIGN.md 6/C07",
                note="trusted: Go's encoding/json tokenizer used by the harness tree parser; duplicate member names not generated",
                text="Generated JSON documents with a reference transform (shape), a round-trip oracle on an order- and literal-preserving tree, "
                     "and an end-to-end envelope check through two real endpoints; exploration, no absence proof.",
                technique=_PBT + "round trip + reference-model shape oracle"),
    "C08": dict(engine="shipsim", design_ref="DESIGN.md 6/C08", note=_TB + "; deadlocks are shown by two identical stack dumps of a blocked ship-go goroutine",
                text="Structured mutations and arbitrary bytes delivered in every handshake state reachable by a valid prefix, both roles; arbitrary "
                     "websocket frames and raw bytes into a live connection; hostile TXT records, names, addresses and ports through both mDNS entry "
                     "paths; no panic, no wedge, no receive loop blocked for more than a virtual minute; plus a real-time run of the SHIP layer (timers, user "
                     "actions and transport errors truly concurrent with the handlers, state changes stretched by a slow logger; no panic, no deadlock). "
                     "Thorough tier adds coverage-guided native fuzzing.",
                technique=_PBT + "structure-aware mutation fuzzing of SHIP messages per reachable state; crash/wedge oracle"),
    "C09": dict(engine="shipsim", design_ref="DESIGN.md 6/C09", note=_TB,
                text="Generated (stored, presented) SHIP ID pairs and message orders in the access-methods phase; oracle on final state and "
                     "order/count of ship-id report vs setup; plus a hub-level run (stored id none/correct/wrong x who dials on two real hubs).",
                technique=_PBT + "generated input pairs and orders, outcome oracle"),
    "C11": dict(engine="shipsim", design_ref="DESIGN.md 6/C11", note=_TB,
                text="Generated combinations and orders of close causes on two real endpoints; HandleConnectionClosed exactly once per connection.",
                technique=_PBT + "generated close-cause histories, exactly-once invariant"),
    "C14": dict(engine="shipsim", design_ref="DESIGN.md 6/C14", note=_TB + "; timer entry points through the verif hooks",
                text="Model-based: arm/stop/advance sequences on the virtual clock against the reference model 'one live timer'.",
                technique=_PBT + "model-based (reference timer model) on a virtual clock"),
}

META.update({
    "C12": dict(engine="wsfault", design_ref="DESIGN.md 6/C12",
                note="trusted: in-memory net.Conn mirrors a TCP socket; goroutine interleavings inside ws are sampled by the Go scheduler, not enumerated; "
                     "the 'peer never reads again, write deadline expires' sub-case is out of reach of the virtual clock (mutex waiters freeze it) and is counted as inconclusive",
                text="Generated races of 1-8 writer goroutines against a closing event on a real websocket connection; no panic, no hang, "
                     "error after closure, gap-free prefix at the peer.",
                technique=_PBT + "generated concurrent schedules with fault injection, history oracle (prefix consistency)"),
    "C13": dict(engine="wsfault", design_ref="DESIGN.md 6/C13",
                note="trusted: in-memory net.Conn mirrors a TCP socket (buffered, EOF after close); goroutine scan limited to the case's own bubble",
                text="For generated sessions the fault position is enumerated: every k-th read and every k-th write of the session fails, plus peer "
                     "close codes, EOF and local closes; oracle on error report, closed query, deliveries afterwards, pump goroutines and socket close.",
                technique="fault enumeration over rapid-generated sessions (k-th I/O operation), resource-release oracle"),
    "C16": dict(engine="mdnssim", design_ref="DESIGN.md 6/C16", note="trusted: fake Avahi daemon mirrors go-avahi's Server as far as the provider uses it",
                text="Generated service configurations; round trip announce -> library's own TXT parser and entry processing; QR text against a reference parser.",
                technique=_PBT + "round trip through the library's own parser + reference parser for the QR format"),
    "C17": dict(engine="mdnssim", design_ref="DESIGN.md 6/C17", note="trusted: fake provider delivers resolver callbacks the way avahi/zeroconf providers do",
                text="Model-based: generated resolver histories against a reference entry map, checked after every event; final report equals final set "
                     "under bursts, slow applications and GOMAXPROCS 1/2/16; plus a hub-level run comparing the managers' views with what the fabric reported.",
                technique=_PBT + "model-based (reference map) over generated event histories and scheduler settings"),
    "C19": dict(engine="mdnssim", design_ref="DESIGN.md 6/C19", note="trusted: fake Avahi daemon (availability, object invalidation, Disconnected also on Shutdown())",
                text="Model-based: generated daemon fault / API call histories on the virtual clock against the model (desired announcement, shutdown flag).",
                technique=_PBT + "model-based with injected daemon faults on a virtual clock"),
})

_RT = ("real time: verdicts never depend on a wall-clock deadline being met - safety clauses use a load-aware grace, convergence is polled and "
       "'still busy at the bound' is inconclusive; the schedule of a failing scenario is not reproducible, only its script (re-executed and reported with the reproduction count)")
META.update({
    "C02": dict(engine="certid", design_ref="DESIGN.md 6/C02", note="trusted: Go's crypto/tls and crypto/x509 as the peer's implementation; refusal = no SHIP byte within 400 ms and no callback",
                text="Generated certificates, TLS versions, sub-protocol offers and (dialled, presented) SKI pairs against a real hub over real sockets; "
                     "oracle on what the adversarial peer receives and which SKI the hub attributes.",
                technique=_PBT + "generated adversarial peers (certificate/TLS/sub-protocol space), acceptance oracle"),
    "C05": dict(engine="hubnet", design_ref="DESIGN.md 6/C05", note=_RT,
                text="Generated registration/visibility timings and disturbance sequences on two real hubs; convergence oracle (one completed connection on "
                     "both sides, one TCP connection, payloads both ways), liveness decided up to a bound.",
                technique=_PBT + "generated fault/timing scenarios on real hubs, convergence oracle at quiescence"),
    "C10": dict(engine="hubnet", design_ref="DESIGN.md 6/C10", note=_RT,
                text="Generated user-operation / mDNS histories on three real hubs with attributable outbound TCP connections; model of user intent "
                     "(registered intervals) checked against accept and callback timestamps.",
                technique=_PBT + "model-based (user-intent model) over generated operation histories with real timing"),
    "C15": dict(engine="hubnet", design_ref="DESIGN.md 6/C15", note=_RT,
                text="Differential/metamorphic: the same scenario on two fresh pairs of real hubs with canonical vs re-formatted SKI must settle in the same observable state.",
                technique=_PBT + "metamorphic / differential twin execution"),
    "C18": dict(engine="hubsim", design_ref="DESIGN.md 6/C18", note="trusted: the harness plays the SHIP connections through the hub's exported entry points; virtual clock",
                text="Generated notification histories on a real hub in a bubble; last notification equals the hub's own answer, delivered order is a subsequence of the hub's state sequence; "
                     "plus a hub-level run in which real connections (double connections, reconnects, late approvals, cancels) make the changes.",
                technique=_PBT + "generated histories and scheduler settings, history-order oracle"),
    "C20": dict(engine="hubnet", design_ref="DESIGN.md 6/C20", note="the race detector only reports races on executed interleavings",
                text="All concurrent engines under the Go race detector with generated concurrent operation mixes; every report is a violation unless its key is a listed finding.",
                technique=_PBT + "generated concurrent workloads under the Go race detector (dynamic race detection)"),
})

_pending = "machinery for this property is not built yet (work in progress, see DESIGN.md section 6)"
NOT_APPLICABLE = {("C%02d" % i): _pending for i in range(1, 21)}
