#!/bin/bash
# Runs the repository's pinned test suite with the verif guard OFF (no -tags verif)
# and checks that every test of BASELINE.json's stable_pass list passes.
# usage: ./baseline_off.sh [repo dir]   (default /repo)
REPO=${1:-/repo}
OUT=$(mktemp -d /var/tmp/verif-baseline.XXXXXX)
trap 'rm -rf "$OUT"' EXIT
export GOFLAGS=-mod=mod GOPROXY=off GOSUMDB=off GOTOOLCHAIN=local
(cd "$REPO" && go test -mod=mod -json -vet=off -count=1 -timeout 25m ./... > "$OUT/test.json" 2>"$OUT/stderr")
python3 - "$OUT/test.json" <<'PY'
import json, sys
passed, failed = set(), set()
for line in open(sys.argv[1], errors="replace"):
    try:
        e = json.loads(line)
    except Exception:
        continue
    if e.get("Test") and e.get("Action") in ("pass", "fail"):
        (passed if e["Action"] == "pass" else failed).add(e["Package"] + "::" + e["Test"])
base = json.load(open("/root/.vp/BASELINE.json"))
want = set(base["stable_pass"])
missing = sorted(want - passed)
print("baseline: %d stable tests, %d passed now, %d missing; %d other passes, %d failures overall" % (
    len(want), len(want & passed), len(missing), len(passed - want), len(failed)))
for m in missing:
    print("  NOT PASSING:", m)
sys.exit(1 if missing else 0)
PY
