// Package certid (C02): adversarial TLS/websocket clients against a real,
// started hub (inbound) and a hub made to dial a harness TLS server (outbound).
// Real sockets, real crypto/tls.
package certid

import (
	"crypto"
	"crypto/ecdsa"
	"crypto/elliptic"
	"crypto/rand"
	"crypto/rsa"
	"crypto/sha1"
	"crypto/tls"
	"crypto/x509"
	"crypto/x509/pkix"
	"encoding/asn1"
	"encoding/hex"
	"encoding/json"
	"fmt"
	"math/big"
	"net"
	"net/http"
	"strings"
	"sync"
	"sync/atomic"
	"testing"
	"time"

	"github.com/gorilla/websocket"
	"pgregory.net/rapid"

	"github.com/enbility/ship-go/api"
	"github.com/enbility/ship-go/cert"
	"github.com/enbility/ship-go/hub"
	"github.com/enbility/ship-go/mdns"
	"verifharness/core"
	"verifharness/mdnssim"
)

// ---- key / certificate material -----------------------------------------------

type keyPair struct {
	kind string
	priv crypto.Signer
}

var (
	keyOnce sync.Once
	keys    map[string][]keyPair
)

func keyPool() map[string][]keyPair {
	keyOnce.Do(func() {
		keys = map[string][]keyPair{}
		for i := 0; i < 4; i++ {
			k, _ := ecdsa.GenerateKey(elliptic.P256(), rand.Reader)
			keys["p256"] = append(keys["p256"], keyPair{"p256", k})
			k2, _ := ecdsa.GenerateKey(elliptic.P384(), rand.Reader)
			keys["p384"] = append(keys["p384"], keyPair{"p384", k2})
		}
		for i := 0; i < 2; i++ {
			k, _ := rsa.GenerateKey(rand.Reader, 2048)
			keys["rsa"] = append(keys["rsa"], keyPair{"rsa", k})
		}
	})
	return keys
}

// method-1 SKI of RFC 5280 4.2.1.2: SHA-1 of the subjectPublicKey BIT STRING
func derivedSKI(pub crypto.PublicKey) []byte {
	der, err := x509.MarshalPKIXPublicKey(pub)
	if err != nil {
		return nil
	}
	var spki struct {
		Algo asn1.RawValue
		Key  asn1.BitString
	}
	if _, err := asn1.Unmarshal(der, &spki); err != nil {
		return nil
	}
	s := sha1.Sum(spki.Key.Bytes)
	return s[:]
}

func makeCert(k keyPair, ski []byte, cn string) (tls.Certificate, error) {
	serial, _ := rand.Int(rand.Reader, big.NewInt(1<<62))
	tpl := x509.Certificate{SerialNumber: serial, Subject: pkix.Name{CommonName: cn, Organization: []string{"adversary"}},
		NotBefore: time.Now().Add(-time.Hour), NotAfter: time.Now().Add(24 * time.Hour), KeyUsage: x509.KeyUsageDigitalSignature,
		BasicConstraintsValid: true, IsCA: true, SubjectKeyId: ski}
	der, err := x509.CreateCertificate(rand.Reader, &tpl, &tpl, k.priv.Public(), k.priv)
	if err != nil {
		return tls.Certificate{}, err
	}
	if ski == nil {
		// x509.CreateCertificate derives a SKI for CA certificates when none is given: build a non-CA certificate instead
		tpl.IsCA = false
		tpl.BasicConstraintsValid = false
		der, err = x509.CreateCertificate(rand.Reader, &tpl, &tpl, k.priv.Public(), k.priv)
		if err != nil {
			return tls.Certificate{}, err
		}
	}
	return tls.Certificate{Certificate: [][]byte{der}, PrivateKey: k.priv}, nil
}

// C02Script is one inbound or outbound case.
type C02Script struct {
	Dir      string    `json:"dir"`      // in | out
	CertKind string    `json:"certKind"` // none | lib | absent | len | random20 | foreign | derived
	SkiLen   int       `json:"skiLen"`
	KeyKind  string    `json:"keyKind"`
	KeyIdx   int       `json:"keyIdx"`
	TLSMax   uint16    `json:"tlsMax"`
	Protos   []string  `json:"protos"`
	Subject  [4]string `json:"subject"`  // for the library's generator
	SkiSeed  string    `json:"skiSeed"`  // hex, for random SKIs
	DialSame bool      `json:"dialSame"` // out: the hub dials exactly the SKI the server presents
	NoPath   bool      `json:"noPath"`   // out: the server answers 404 on the announced path and upgrades only on "/"
	// out: a second, honest peer (library certificate) is registered and announced StallMs/3 after the
	// first report, while the server of the first dial still sits StallMs in its TLS handshake - two
	// outbound dials to different SKIs in flight at once. PresentPeer2: the server at the first address
	// presents the certificate of that second peer (a paired device that announces somebody else's SKI
	// at an address of its own).
	Overlap      bool `json:"overlap,omitempty"`
	StallMs      int  `json:"stallMs,omitempty"`
	PresentPeer2 bool `json:"presentPeer2,omitempty"`
}

// stallListener: the first read of every accepted connection (the TLS client hello) waits d.
type stallListener struct {
	net.Listener
	d time.Duration
}

type stallConn struct {
	net.Conn
	once sync.Once
	d    time.Duration
}

func (c *stallConn) Read(b []byte) (int, error) {
	c.once.Do(func() { time.Sleep(c.d) })
	return c.Conn.Read(b)
}

func (l *stallListener) Accept() (net.Conn, error) {
	c, err := l.Listener.Accept()
	if err != nil {
		return nil, err
	}
	return &stallConn{Conn: c, d: l.d}, nil
}

type built struct {
	cert    *tls.Certificate
	ski     []byte // SKI extension of the presented certificate (nil = none / no certificate)
	bound   bool   // SKI is the SHA-1 of the presented certificate's public key
	foreign string // hex SKI of the victim whose identity is claimed
}

var caseCounter atomic.Uint32

var victimOnce sync.Once
var victim tls.Certificate
var victimSKI []byte

func buildCert(sc C02Script) (*built, error) {
	b := &built{}
	pool := keyPool()
	victimOnce.Do(func() {
		victim, _ = cert.CreateCertificate("unit", "victim", "DE", "victim-device")
		leaf, _ := x509.ParseCertificate(victim.Certificate[0])
		victimSKI = leaf.SubjectKeyId
	})
	_ = pool
	// a fresh key for every case: the SKI of a case is unique, so hub callbacks
	// can be attributed to the case by their SKI (pairing notifications are
	// delivered up to 500 ms late and would otherwise leak into later cases)
	var k keyPair
	switch sc.KeyKind {
	case "p384":
		kk, _ := ecdsa.GenerateKey(elliptic.P384(), rand.Reader)
		k = keyPair{"p384", kk}
	case "rsa":
		kk, _ := rsa.GenerateKey(rand.Reader, 1024)
		k = keyPair{"rsa", kk}
	default:
		kk, _ := ecdsa.GenerateKey(elliptic.P256(), rand.Reader)
		k = keyPair{"p256", kk}
	}
	var c tls.Certificate
	var err error
	switch sc.CertKind {
	case "none":
		return b, nil
	case "lib":
		c, err = cert.CreateCertificate(sc.Subject[0], sc.Subject[1], sc.Subject[2], sc.Subject[3])
	case "absent":
		c, err = makeCert(k, nil, "no-ski")
	case "len", "random20":
		seed, _ := hex.DecodeString(sc.SkiSeed)
		n := sc.SkiLen
		if sc.CertKind == "random20" {
			n = 20
		}
		ski := make([]byte, n)
		for i := range ski {
			if len(seed) > 0 {
				ski[i] = seed[i%len(seed)] + byte(i)
			}
		}
		// unique per case
		uniq := caseCounter.Add(1)
		for i := 0; i < 4 && i < n; i++ {
			ski[n-1-i] = byte(uniq >> (8 * i))
		}
		if n == 0 {
			ski = []byte{}
		}
		c, err = makeCert(k, ski, "ski-len")
	case "foreign":
		c, err = makeCert(k, victimSKI, "impostor")
		b.foreign = hex.EncodeToString(victimSKI)
	case "derived":
		c, err = makeCert(k, derivedSKI(k.priv.Public()), "derived")
	case "chain":
		// own leaf without a usable SKI, followed by the genuine certificate of another device
		var ski []byte
		if sc.SkiLen%2 == 1 {
			ski = make([]byte, sc.SkiLen%20)
		}
		c, err = makeCert(k, ski, "chain-leaf")
		if err == nil {
			c.Certificate = append(c.Certificate, victim.Certificate[0])
		}
		b.foreign = hex.EncodeToString(victimSKI)
	default:
		return nil, fmt.Errorf("unknown cert kind %q", sc.CertKind)
	}
	if err != nil {
		return nil, err
	}
	leaf, err := x509.ParseCertificate(c.Certificate[0])
	if err != nil {
		return nil, err
	}
	b.cert = &c
	b.ski = leaf.SubjectKeyId
	b.bound = len(b.ski) == 20 && string(derivedSKI(leaf.PublicKey)) == string(b.ski)
	return b, nil
}

// ---- hub under test ------------------------------------------------------------------

type app struct {
	mu   sync.Mutex
	Skis []string
}

func (a *app) note(ski string) {
	a.mu.Lock()
	a.Skis = append(a.Skis, ski)
	a.mu.Unlock()
}
func (a *app) RemoteSKIConnected(s string)    { a.note(s) }
func (a *app) RemoteSKIDisconnected(s string) { a.note(s) }
func (a *app) SetupRemoteDevice(s string, w api.ShipConnectionDataWriterInterface) api.ShipConnectionDataReaderInterface {
	a.note(s)
	return nil
}
func (a *app) VisibleRemoteServicesUpdated([]api.RemoteService)                  {}
func (a *app) ServiceShipIDUpdate(s, id string)                                  { a.note(s) }
func (a *app) ServicePairingDetailUpdate(s string, d *api.ConnectionStateDetail) { a.note(s) }
func (a *app) AllowWaitingForTrust(s string) bool                                { a.note(s); return true }
func (a *app) snapshot() []string {
	a.mu.Lock()
	defer a.mu.Unlock()
	return append([]string(nil), a.Skis...)
}

type mdnsWrap struct {
	*mdns.MdnsManager
	prov *mdnssim.FakeProvider
}

func (m *mdnsWrap) Start(cb api.MdnsReportInterface) error {
	return m.MdnsManager.VerifStartWithProvider(m.prov, cb)
}

type testHub struct {
	h    *hub.Hub
	app  *app
	port int
	ski  string
	prov *mdnssim.FakeProvider
}

func startHub() (*testHub, error) {
	c, err := cert.CreateCertificate("unit", "hub", "DE", "hub-under-test")
	if err != nil {
		return nil, err
	}
	leaf, _ := x509.ParseCertificate(c.Certificate[0])
	ski, _ := cert.SkiFromCertificate(leaf)
	for attempt := 0; attempt < 20; attempt++ {
		l, err := net.Listen("tcp", "127.0.0.1:0")
		if err != nil {
			return nil, err
		}
		port := l.Addr().(*net.TCPAddr).Port
		l.Close()
		th := &testHub{app: &app{}, port: port, ski: ski, prov: &mdnssim.FakeProvider{}}
		mgr := mdns.NewMDNS(ski, "b", "m", "t", "s", nil, "hub-id", "hub", port, nil, mdns.MdnsProviderSelectionAll)
		local := api.NewServiceDetails(ski)
		local.SetShipID("hub-id")
		th.h = hub.NewHub(th.app, &mdnsWrap{mgr, th.prov}, port, c, local)
		th.h.Start()
		// reachable and ours?
		deadline := time.Now().Add(2 * time.Second)
		for time.Now().Before(deadline) {
			probe := keyPool()["p256"][0]
			pc, _ := makeCert(probe, derivedSKI(probe.priv.Public()), "probe")
			conn, err := tls.DialWithDialer(&net.Dialer{Timeout: time.Second}, "tcp", fmt.Sprintf("127.0.0.1:%d", port),
				&tls.Config{InsecureSkipVerify: true, Certificates: []tls.Certificate{pc}, CipherSuites: cert.CipherSuites, MaxVersion: tls.VersionTLS12})
			if err == nil {
				pcs := conn.ConnectionState().PeerCertificates
				ok := len(pcs) > 0 && fmt.Sprintf("%0x", pcs[0].SubjectKeyId) == ski
				conn.Close()
				if ok {
					return th, nil
				}
				break
			}
			time.Sleep(20 * time.Millisecond)
		}
		th.h.Shutdown()
	}
	return nil, fmt.Errorf("could not start the hub under test")
}

// ---- inbound ------------------------------------------------------------------------------

type inResult struct {
	TLSOk, WSOk bool
	Frames      int // binary frames received from the hub
	Version     uint16
	NewSkis     []string
	Err         string
}

var (
	hubOnce sync.Once
	theHub  *testHub
	hubErr  error
)

func sharedHub() (*testHub, error) {
	hubOnce.Do(func() { theHub, hubErr = startHub() })
	return theHub, hubErr
}

func runInbound(sc C02Script, b *built) *inResult {
	res := &inResult{}
	th, err := sharedHub()
	if err != nil {
		res.Err = "harness: " + err.Error()
		return res
	}
	before := len(th.app.snapshot())
	cfg := &tls.Config{InsecureSkipVerify: true, MinVersion: tls.VersionTLS10, MaxVersion: sc.TLSMax,
		CipherSuites: []uint16{tls.TLS_ECDHE_ECDSA_WITH_AES_128_CBC_SHA256, tls.TLS_ECDHE_ECDSA_WITH_AES_128_GCM_SHA256,
			tls.TLS_ECDHE_ECDSA_WITH_AES_128_CBC_SHA, tls.TLS_ECDHE_ECDSA_WITH_AES_256_CBC_SHA}}
	if b.cert != nil {
		cfg.Certificates = []tls.Certificate{*b.cert}
	}
	d := websocket.Dialer{TLSClientConfig: cfg, HandshakeTimeout: 2 * time.Second, Subprotocols: sc.Protos}
	conn, _, err := d.Dial(fmt.Sprintf("wss://127.0.0.1:%d/ship/", th.port), nil)
	if err != nil {
		res.Err = err.Error()
		// distinguish TLS failure from upgrade failure
		res.TLSOk = !strings.Contains(err.Error(), "tls:") && !strings.Contains(err.Error(), "EOF") && !strings.Contains(err.Error(), "reset")
	} else {
		res.TLSOk, res.WSOk = true, true
		if tc, ok := conn.UnderlyingConn().(*tls.Conn); ok {
			res.Version = tc.ConnectionState().Version
		}
		// a conformant client: send the init message, wait for the hub's init, then send the hello
		// (the hub may end the handshake if a hello overtakes its own start-up)
		_ = conn.WriteMessage(websocket.BinaryMessage, []byte{0, 0})
		// a refusal is "no SHIP byte within 400 ms"; where acceptance is expected the
		// first frame normally arrives within milliseconds, and on a loaded machine the
		// client waits up to 10 s for it rather than misjudging a slow hub as a refusal
		wait := 400 * time.Millisecond
		if expectAccept(sc, b) {
			wait = 10 * time.Second
		}
		_ = conn.SetReadDeadline(time.Now().Add(wait))
		for {
			typ, _, err := conn.ReadMessage()
			if err != nil {
				break
			}
			if typ == websocket.BinaryMessage {
				res.Frames++
				if res.Frames == 1 {
					_ = conn.WriteMessage(websocket.BinaryMessage, append([]byte{1}, `{"connectionHello":[{"phase":"ready"},{"waiting":60000}]}`...))
				}
				if res.Frames >= 2 {
					break
				}
			}
		}
		conn.Close()
	}
	time.Sleep(30 * time.Millisecond)
	all := th.app.snapshot()
	res.NewSkis = all[before:]
	return res
}

// expectAccept: a certificate whose SKI is bound to its key, TLS >= 1.2 and the ship sub-protocol offered.
func expectAccept(sc C02Script, b *built) bool {
	ship := false
	for _, p := range sc.Protos {
		if p == "ship" {
			ship = true
		}
	}
	return b.cert != nil && b.bound && sc.TLSMax >= tls.VersionTLS12 && ship
}

func judgeInbound(sc C02Script) (key, msg string) {
	b, err := buildCert(sc)
	if err != nil {
		return "harness", err.Error()
	}
	r := runInbound(sc, b)
	if strings.HasPrefix(r.Err, "harness") {
		return "harness", r.Err
	}
	want := hex.EncodeToString(b.ski)
	accepted := r.Frames > 0
	var mine []string
	for _, s := range r.NewSkis {
		// callbacks are attributed to this case by its (unique) SKI; late notifications of earlier cases carry other SKIs
		if s != "" && len(b.ski) > 0 && strings.EqualFold(strings.NewReplacer("-", "", " ", "").Replace(s), want) {
			accepted = true
			mine = append(mine, s)
		}
		// the victim's SKI is shared between cases; it counts only together with SHIP frames of this connection
		if b.foreign != "" && s == b.foreign && r.Frames > 0 {
			mine = append(mine, s)
		}
	}
	r.NewSkis = mine
	shipOffered := false
	for _, p := range sc.Protos {
		if p == "ship" {
			shipOffered = true
		}
	}
	desc := fmt.Sprintf("certificate %s (SKI %d bytes, bound to key: %v), key %s, TLS max %x, sub-protocols %v: TLS ok=%v, upgrade ok=%v, %d SHIP frames, callbacks for %v, error %q",
		sc.CertKind, len(b.ski), b.bound, sc.KeyKind, sc.TLSMax, sc.Protos, r.TLSOk, r.WSOk, r.Frames, r.NewSkis, r.Err)
	if accepted {
		switch {
		case b.cert == nil:
			return "C02/accepted-without-certificate", desc
		case len(b.ski) != 20:
			return "C02/accepted-bad-ski-length", desc
		case !b.bound && b.foreign != "":
			return "C02/foreign-ski-accepted", "a peer presenting its own key but the SKI of another device was accepted under that device's identity: " + desc
		case !b.bound:
			return "C02/unbound-ski-accepted", "a SKI that is not the SHA-1 of the presented public key was accepted: " + desc
		case sc.TLSMax < tls.VersionTLS12:
			return "C02/accepted-below-tls12", desc
		case !shipOffered:
			return "C02/accepted-without-ship-subprotocol", desc
		}
		for _, s := range r.NewSkis {
			if s != want {
				return "C02/wrong-ski-attributed", fmt.Sprintf("the hub attributed the connection to %q but the certificate's SKI is %q: %s", s, want, desc)
			}
		}
	}
	// certificates of the library's own generator always pass (given TLS >= 1.2 and the ship sub-protocol)
	if sc.CertKind == "lib" && sc.TLSMax >= tls.VersionTLS12 && shipOffered {
		if !b.bound || len(want) != 40 || want != strings.ToLower(want) {
			return "C02/generator-ski", fmt.Sprintf("the generated certificate's SKI %q is not 40 lower-case hex digits equal to SHA-1 of its public key", want)
		}
		// "pass" = the identity checks let the peer through: SHIP bytes came back, or the hub made callbacks
		// naming that SKI (under load the very first SHIP message can reach the hub before its connection
		// object runs and the handshake then fails - DESIGN.md section 8; that is no refusal of the certificate)
		if r.Frames == 0 && len(r.NewSkis) == 0 {
			return "C02/generated-certificate-refused", "a certificate from the library's own generator was not accepted: " + desc
		}
	}
	return "", ""
}

// ---- outbound -------------------------------------------------------------------------------

type outResult struct {
	Accepted  bool // TLS + upgrade completed on the harness server
	Binary    int  // binary frames the hub sent
	Err       string
	Presented string // hex SKI of the certificate the server at the dialled address presented
	Peer2     int    // binary frames the honest second peer received
}

func runOutbound(sc C02Script, b *built) (*outResult, string) {
	res := &outResult{}
	if b.cert == nil {
		return res, ""
	}
	th, err := startHub()
	if err != nil {
		return nil, err.Error()
	}
	defer th.h.Shutdown()
	var mu sync.Mutex
	done := make(chan struct{}, 4)
	up := websocket.Upgrader{CheckOrigin: func(*http.Request) bool { return true }, Subprotocols: []string{"ship"}}
	presentCert := *b.cert
	presented := hex.EncodeToString(b.ski)
	var ski2 string
	port2 := 0
	if sc.Overlap {
		c2, err := cert.CreateCertificate("unit", "peer2", "DE", "honest-second-peer")
		if err != nil {
			return nil, err.Error()
		}
		leaf, _ := x509.ParseCertificate(c2.Certificate[0])
		ski2, _ = cert.SkiFromCertificate(leaf)
		srv2 := &http.Server{TLSConfig: &tls.Config{Certificates: []tls.Certificate{c2}, ClientAuth: tls.RequireAnyClientCert, MinVersion: tls.VersionTLS12},
			Handler: http.HandlerFunc(func(w http.ResponseWriter, r *http.Request) {
				c, err := up.Upgrade(w, r, nil)
				if err != nil {
					return
				}
				defer c.Close()
				_ = c.SetReadDeadline(time.Now().Add(3 * time.Second))
				for {
					typ, _, err := c.ReadMessage()
					if err != nil {
						return
					}
					if typ == websocket.BinaryMessage {
						mu.Lock()
						res.Peer2++
						mu.Unlock()
					}
				}
			})}
		l2, err := tls.Listen("tcp", "127.0.0.1:0", srv2.TLSConfig)
		if err != nil {
			return nil, err.Error()
		}
		go func() { _ = srv2.Serve(l2) }()
		defer srv2.Close()
		port2 = l2.Addr().(*net.TCPAddr).Port
		if sc.PresentPeer2 {
			presentCert, presented = c2, ski2
		}
	}
	res.Presented = presented
	srv := &http.Server{TLSConfig: &tls.Config{Certificates: []tls.Certificate{presentCert}, ClientAuth: tls.RequireAnyClientCert, MinVersion: tls.VersionTLS12},
		Handler: http.HandlerFunc(func(w http.ResponseWriter, r *http.Request) {
			if sc.NoPath && r.URL.Path != "/" && r.URL.Path != "" {
				http.NotFound(w, r) // the hub then retries without the path
				return
			}
			c, err := up.Upgrade(w, r, nil)
			if err != nil {
				return
			}
			mu.Lock()
			res.Accepted = true
			mu.Unlock()
			_ = c.SetReadDeadline(time.Now().Add(700 * time.Millisecond))
			for {
				typ, _, err := c.ReadMessage()
				if err != nil {
					break
				}
				if typ == websocket.BinaryMessage {
					mu.Lock()
					res.Binary++
					mu.Unlock()
				}
			}
			c.Close()
			done <- struct{}{}
		})}
	raw, err := net.Listen("tcp", "127.0.0.1:0")
	if err != nil {
		return nil, err.Error()
	}
	var inner net.Listener = raw
	if sc.Overlap {
		inner = &stallListener{Listener: raw, d: time.Duration(sc.StallMs) * time.Millisecond}
	}
	l := tls.NewListener(inner, srv.TLSConfig)
	go func() { _ = srv.Serve(l) }()
	defer srv.Close()
	port := raw.Addr().(*net.TCPAddr).Port

	dialled := presented
	if !sc.DialSame || len(presented) != 40 {
		dialled = strings.Repeat("ab", 20)
		if b.foreign != "" && !sc.PresentPeer2 {
			dialled = b.foreign // the hub wants the victim and gets the impostor
		}
	}
	if sc.PresentPeer2 && sc.Overlap {
		// the second peer answers at the address announced for somebody else
		dialled = strings.Repeat("ab", 20)
		if len(b.ski) == 20 {
			dialled = hex.EncodeToString(b.ski)
		}
	}
	th.h.RegisterRemoteSKI(dialled)
	if sc.Overlap {
		th.h.RegisterRemoteSKI(ski2)
	}
	th.prov.CB(map[string]string{"txtvers": "1", "id": "peer-id", "path": "/ship/", "ski": dialled, "register": "false"}, "peer", "", []net.IP{net.ParseIP("127.0.0.1")}, port, false)
	wait := 1500 * time.Millisecond
	if sc.Overlap {
		time.Sleep(time.Duration(sc.StallMs/3) * time.Millisecond)
		th.prov.CB(map[string]string{"txtvers": "1", "id": "peer2-id", "path": "/ship/", "ski": ski2, "register": "false"}, "peer2", "", []net.IP{net.ParseIP("127.0.0.1")}, port2, false)
		wait += 2 * time.Duration(sc.StallMs) * time.Millisecond
	}
	select {
	case <-done:
	case <-time.After(wait):
	}
	time.Sleep(50 * time.Millisecond)
	mu.Lock()
	defer mu.Unlock()
	cp := *res
	return &cp, dialled
}

func judgeOutbound(sc C02Script) (key, msg string) {
	b, err := buildCert(sc)
	if err != nil {
		return "harness", err.Error()
	}
	r, dialled := runOutbound(sc, b)
	if r == nil {
		return "harness", dialled
	}
	if b.cert == nil {
		return "", ""
	}
	presented, bound, kind := r.Presented, b.bound, sc.CertKind
	if sc.Overlap && sc.PresentPeer2 {
		bound, kind = true, "the second peer's"
	}
	desc := fmt.Sprintf("dialled SKI %s, server presented %s certificate with SKI %q (bound to its key: %v): upgrade completed=%v, %d SHIP frames sent by the hub", dialled, kind, presented, bound, r.Accepted, r.Binary)
	if sc.Overlap {
		desc += fmt.Sprintf("; a second peer was dialled while the first dial sat %d ms in TLS (it received %d SHIP frames)", sc.StallMs, r.Peer2)
	}
	if r.Binary > 0 {
		if presented != dialled {
			return "C02/out-ship-to-wrong-ski", "the hub sent SHIP messages to a server whose certificate yields another SKI than the one dialled: " + desc
		}
		if !bound {
			k := "C02/unbound-ski-accepted"
			if b.foreign != "" {
				k = "C02/foreign-ski-accepted"
			}
			return k, "the hub sent SHIP messages to a server whose SKI is not bound to its key: " + desc
		}
	}
	if sc.CertKind == "lib" && !sc.PresentPeer2 && presented == dialled && r.Binary == 0 {
		return "C02/out-refused-matching-peer", "the hub did not start SHIP with the dialled peer: " + desc
	}
	return "", ""
}

func judge(sc C02Script) (string, string) {
	if sc.Dir == "out" {
		return judgeOutbound(sc)
	}
	return judgeInbound(sc)
}

// ---- generator / test --------------------------------------------------------------------------

const KeyForeignSKI = "C02/foreign-ski-accepted"
const KeyUnboundSKI = "C02/unbound-ski-accepted"

func genC02(t *rapid.T, dir string) C02Script {
	kinds := []string{"none", "lib", "lib", "absent", "len", "len", "random20", "foreign", "derived", "derived", "chain"}
	sc := C02Script{Dir: dir, CertKind: rapid.SampledFrom(kinds).Draw(t, "certKind"),
		SkiLen:  rapid.IntRange(0, 40).Draw(t, "skiLen"),
		KeyKind: rapid.SampledFrom([]string{"p256", "p256", "p384", "rsa"}).Draw(t, "keyKind"), KeyIdx: rapid.IntRange(0, 3).Draw(t, "keyIdx"),
		TLSMax: rapid.SampledFrom([]uint16{tls.VersionTLS10, tls.VersionTLS11, tls.VersionTLS12, tls.VersionTLS12, tls.VersionTLS13, tls.VersionTLS13}).Draw(t, "tlsMax"),
		Protos: rapid.SampledFrom([][]string{nil, {"ship"}, {"ship"}, {"ship"}, {"other"}, {"other", "ship"}, {"SHIP"}, {"ship2"}, {"membership"},
			{"eebus-ship.v1", "xship"}, {"shi", "p"}}).Draw(t, "protos"),
		SkiSeed: hex.EncodeToString(rapid.SliceOfN(rapid.Byte(), 1, 8).Draw(t, "skiSeed")), DialSame: rapid.Bool().Draw(t, "dialSame"),
	}
	for i := range sc.Subject {
		sc.Subject[i] = rapid.StringN(0, 12, 40).Draw(t, "subject")
	}
	if sc.CertKind == "len" && sc.SkiLen == 20 {
		sc.CertKind = "random20"
	}
	if (core.Excluded(KeyForeignSKI) || core.Excluded(KeyUnboundSKI)) && (sc.CertKind == "foreign" || sc.CertKind == "random20") {
		sc.CertKind = "derived"
	}
	if dir == "out" {
		sc.TLSMax = tls.VersionTLS13
		sc.NoPath = rapid.IntRange(0, 2).Draw(t, "noPath") == 0
		if rapid.IntRange(0, 3).Draw(t, "overlap") == 0 {
			sc.Overlap = true
			sc.StallMs = rapid.SampledFrom([]int{30, 90, 240}).Draw(t, "stallMs")
			sc.PresentPeer2 = rapid.Bool().Draw(t, "presentPeer2")
		}
	}
	return sc
}

func runC02(t *testing.T, dir string) {
	st := core.Begin(t, "C02", "certid")
	defer st.End()
	rapid.Check(t, func(rt *rapid.T) {
		sc := genC02(rt, dir)
		key, msg := judge(sc)
		nt := sc.CertKind != "none"
		st.Case(sc, nt, "dir:"+dir, fmt.Sprintf("overlapping-dials:%v", sc.Overlap), "cert:"+sc.CertKind, fmt.Sprintf("tls:%x", sc.TLSMax), "protos:"+strings.Join(sc.Protos, "+"), "key:"+sc.KeyKind)
		if key != "" {
			st.Fail(key, msg, sc)
			rt.Fatalf("%s: %s", key, msg)
		}
	})
}

func TestC02Inbound(t *testing.T)  { runC02(t, "in") }
func TestC02Outbound(t *testing.T) { runC02(t, "out") }

// TestReplay executes a replay file, bypassing rapid.
func TestReplay(t *testing.T) {
	if *core.ReplayFlag == "" {
		t.Skip("no -script")
	}
	f, err := core.LoadReplay(*core.ReplayFlag)
	if err != nil {
		t.Fatal(err)
	}
	var sc C02Script
	if err := json.Unmarshal(f.Script, &sc); err != nil {
		t.Fatal(err)
	}
	key, msg := judge(sc)
	core.ReplayVerdict(t, f.Property, key, msg)
}
