// Package core holds what all engines share: per-run statistics and the
// shard file the driver merges into evidence/<id>.json, failure capture
// (the shrunk script becomes the replay file), replay file I/O, the
// synctest bubble wrapper and small helpers.
package core

import (
	"encoding/binary"
	"encoding/json"
	"errors"
	"flag"
	"fmt"
	"hash/fnv"
	"os"
	"path/filepath"
	"runtime"
	"sort"
	"strconv"
	"strings"
	"sync"
	"testing"
	"testing/synctest"
	"time"
)

// ReplayFlag is the path of a replay file (see Replay). Registered once for
// every engine test binary.
var ReplayFlag = flag.String("script", "", "verif: replay file to execute (TestReplay)")

// Tier returns "quick" or "thorough" (env VERIF_TIER, default quick).
func Tier() string {
	if os.Getenv("VERIF_TIER") == "thorough" {
		return "thorough"
	}
	return "quick"
}

// Excluded reports whether the region of a known finding is excluded from
// generation (env VERIF_EXCLUDE: comma separated finding keys).
func Excluded(key string) bool {
	for _, k := range strings.Split(os.Getenv("VERIF_EXCLUDE"), ",") {
		if strings.TrimSpace(k) == key {
			return true
		}
	}
	return false
}

// EnvInt reads an integer environment variable.
func EnvInt(name string, def int) int {
	if v := os.Getenv(name); v != "" {
		if n, err := strconv.Atoi(v); err == nil {
			return n
		}
	}
	return def
}

// Failure is what a monitor found. Key identifies the root cause class (which
// monitor clause, which state / call site), not the input.
type Failure struct {
	Property string          `json:"property"`
	Engine   string          `json:"engine"`
	Test     string          `json:"test"`
	Key      string          `json:"key"`
	Message  string          `json:"message"`
	Script   json.RawMessage `json:"script"`
}

// Stats collects what one shard (one test process) covered.
type Stats struct {
	mu sync.Mutex

	Property string `json:"property"`
	Engine   string `json:"engine"`
	Test     string `json:"test"`
	Tier     string `json:"tier"`

	Evaluations int            `json:"evaluations"`
	NonTrivial  int            `json:"nontrivial"`
	Classes     map[string]int `json:"classes"`
	Skipped     int            `json:"skipped_events"`
	Excluded    map[string]int `json:"excluded_by_known_finding"`
	Foreign     map[string]int `json:"foreign_events"`
	Inconcl     int            `json:"inconclusive"`
	Aborted     int            `json:"aborted"` // cases ended by a foreign event or inconclusive (not evaluations)
	Samples     []any          `json:"samples"`
	Failure     *Failure       `json:"failure,omitempty"`
	WallS       float64        `json:"wall_s"`
	Requested   int            `json:"requested"`
	Note        string         `json:"note,omitempty"`

	hashes  map[uint64]struct{}
	start   time.Time
	out     string
	maxSamp int
}

// Begin starts a run for one property in one test function. The shard file is
// written by End to $VERIF_OUT (if set).
func Begin(t *testing.T, property, engine string) *Stats {
	s := &Stats{
		Property: property, Engine: engine, Test: t.Name(), Tier: Tier(),
		Classes: map[string]int{}, Excluded: map[string]int{}, Foreign: map[string]int{},
		hashes: map[uint64]struct{}{}, start: time.Now(), out: os.Getenv("VERIF_OUT"),
		maxSamp: 6,
	}
	if f := flag.Lookup("rapid.checks"); f != nil {
		s.Requested, _ = strconv.Atoi(f.Value.String())
	}
	return s
}

// Hash of a normalised script.
func Hash(v any) uint64 {
	b, err := json.Marshal(v)
	if err != nil {
		panic(err)
	}
	h := fnv.New64a()
	h.Write(b)
	return h.Sum64()
}

// Done reports whether a failure was already recorded (rapid is shrinking).
func (s *Stats) Done() bool {
	s.mu.Lock()
	defer s.mu.Unlock()
	return s.Failure != nil
}

// Case records one executed case. script is hashed for distinctness when the
// case is non-trivial by the property's rule.
func (s *Stats) Case(script any, nontrivial bool, classes ...string) {
	s.mu.Lock()
	defer s.mu.Unlock()
	if s.Failure != nil {
		return // shrinking runs are not evaluations
	}
	s.Evaluations++
	for _, c := range classes {
		if c != "" {
			s.Classes[c]++
		}
	}
	if nontrivial {
		s.NonTrivial++
		h := Hash(script)
		if _, ok := s.hashes[h]; !ok {
			s.hashes[h] = struct{}{}
			n := len(s.hashes)
			// keep the first few and then exponentially spaced ones
			if len(s.Samples) < s.maxSamp && (n <= 3 || n&(n-1) == 0) {
				s.Samples = append(s.Samples, script)
			}
		}
	}
}

// Class adds to the class histogram without counting a case.
func (s *Stats) Class(c string, n int) {
	s.mu.Lock()
	defer s.mu.Unlock()
	if s.Failure != nil {
		return
	}
	s.Classes[c] += n
}

func (s *Stats) AddSkipped(n int) {
	s.mu.Lock()
	defer s.mu.Unlock()
	if s.Failure == nil {
		s.Skipped += n
	}
}

func (s *Stats) AddExcluded(key string, n int) {
	s.mu.Lock()
	defer s.mu.Unlock()
	if s.Failure == nil {
		s.Excluded[key] += n
	}
}

func (s *Stats) AddForeign(key string) {
	s.mu.Lock()
	defer s.mu.Unlock()
	if s.Failure == nil {
		s.Foreign[key]++
		s.Aborted++
	}
}

func (s *Stats) AddInconclusive() {
	s.mu.Lock()
	defer s.mu.Unlock()
	if s.Failure == nil {
		s.Inconcl++
		s.Aborted++
	}
}

// Fail records a violation. Called again by every failing shrink attempt, so
// that the last recorded script is the minimal one.
func (s *Stats) Fail(key, msg string, script any) {
	b, _ := json.Marshal(script)
	s.mu.Lock()
	defer s.mu.Unlock()
	s.Failure = &Failure{Property: s.Property, Engine: s.Engine, Test: s.Test, Key: key, Message: msg, Script: b}
}

// End writes the shard file and the hash set.
func (s *Stats) End() {
	s.mu.Lock()
	defer s.mu.Unlock()
	s.WallS = time.Since(s.start).Seconds()
	if s.out == "" {
		return
	}
	_ = os.MkdirAll(filepath.Dir(s.out), 0o755)
	b, _ := json.MarshalIndent(s, "", " ")
	_ = os.WriteFile(s.out, b, 0o644)
	hs := make([]uint64, 0, len(s.hashes))
	for h := range s.hashes {
		hs = append(hs, h)
	}
	sort.Slice(hs, func(i, j int) bool { return hs[i] < hs[j] })
	buf := make([]byte, 8*len(hs))
	for i, h := range hs {
		binary.LittleEndian.PutUint64(buf[8*i:], h)
	}
	_ = os.WriteFile(s.out+".hashes", buf, 0o644)
}

// LoadReplay reads a replay file into the failure record; the engine then
// unmarshals Script into its own script type.
func LoadReplay(path string) (*Failure, error) {
	b, err := os.ReadFile(path)
	if err != nil {
		return nil, err
	}
	var f Failure
	if err := json.Unmarshal(b, &f); err != nil {
		return nil, err
	}
	return &f, nil
}

// ReplayVerdict prints the machine readable outcome of a replay.
func ReplayVerdict(t *testing.T, property, key, msg string) {
	if key == "" || key == "inconclusive" {
		fmt.Printf("REPLAY-OK property=%s %s\n", property, key)
		return
	}
	fmt.Printf("REPLAY-FAIL property=%s key=%s %s\n", property, key, msg)
	t.Fail()
}

// WedgeTimeout is the wall-clock time after which a case that has not
// finished is examined for a deadlock (a normal case takes < 10 ms).
var WedgeTimeout = 6 * time.Second

// ErrWedge is returned by Bubble when a goroutine of the case is blocked on a
// lock/once/channel inside ship-go and does not move any more.
type ErrWedge struct{ Stack, Full string }

func (e *ErrWedge) Error() string { return "wedge: " + e.Stack }

// ErrInconclusive: the case did not finish in time but no deadlock could be shown.
type ErrInconclusive struct{ Info string }

func (e *ErrInconclusive) Error() string { return "inconclusive: " + e.Info }

// Bubble runs f inside a synctest bubble (virtual clock) and returns an error
// if the bubble could not end (a goroutine started inside it is blocked for
// ever), f panicked, or the case wedged. f must not use t.
func Bubble(t *testing.T, f func()) (err error) {
	done := make(chan error, 1)
	go func() {
		defer func() {
			if r := recover(); r != nil {
				done <- fmt.Errorf("bubble: %v", r)
				return
			}
		}()
		var inner any
		synctest.Test(t, func(*testing.T) {
			defer func() {
				if r := recover(); r != nil {
					inner = r
				}
			}()
			f()
		})
		if inner != nil {
			done <- fmt.Errorf("panic in bubble root: %v", inner)
			return
		}
		done <- nil
	}()
	select {
	case err := <-done:
		return err
	case <-time.After(WedgeTimeout):
	}
	// not finished: deadlock or just slow? Compare the blocked ship-go
	// goroutines of two stack dumps taken two seconds apart.
	a := blockedInShipGo()
	select {
	case err := <-done:
		return err
	case <-time.After(2 * time.Second):
	}
	b := blockedInShipGo()
	for id, st := range a {
		if b[id] == st {
			WedgeTimeout = 1500 * time.Millisecond // shrinking re-runs near-identical cases
			return &ErrWedge{Stack: st, Full: FullStack()}
		}
	}
	return &ErrInconclusive{Info: fmt.Sprintf("case still running after %s without a provable deadlock", WedgeTimeout+2*time.Second)}
}

// blockedInShipGo returns goroutine id -> abbreviated stack for every
// goroutine that is blocked on a sync primitive with a ship-go frame on its stack.
func blockedInShipGo() map[string]string {
	buf := make([]byte, 8<<20)
	buf = buf[:runtime.Stack(buf, true)]
	res := map[string]string{}
	for _, g := range strings.Split(string(buf), "\n\n") {
		lines := strings.Split(g, "\n")
		if len(lines) < 2 || !strings.HasPrefix(lines[0], "goroutine ") {
			continue
		}
		head := lines[0]
		blocked := strings.Contains(head, "sync.Mutex.Lock") || strings.Contains(head, "semacquire") ||
			strings.Contains(head, "sync.RWMutex") || strings.Contains(head, "chan send") || strings.Contains(head, "chan receive") ||
			strings.Contains(head, "sync.WaitGroup") || strings.Contains(head, "sync.Cond")
		if !blocked || !strings.Contains(g, "github.com/enbility/ship-go/") {
			continue
		}
		id := strings.Fields(head)[1]
		var fr []string
		for _, l := range lines[1:] {
			if !strings.HasPrefix(l, "\t") && (strings.Contains(l, "ship-go/") || strings.Contains(l, "sync.")) {
				if i := strings.LastIndex(l, "("); i > 0 {
					l = l[:i]
				}
				fr = append(fr, l)
			}
			if len(fr) >= 10 {
				break
			}
		}
		// strip the minutes counter so that two dumps compare equal
		state := head[strings.Index(head, "["):]
		if i := strings.Index(state, ","); i > 0 {
			state = state[:i] + "]"
		}
		res[id] = state + " " + strings.Join(fr, " <- ")
	}
	return res
}

// Journal records the script that is about to run, so that the driver can
// name it when the process is killed by a panic in a library goroutine.
func Journal(script any) {
	out := os.Getenv("VERIF_OUT")
	if out == "" {
		return
	}
	b, err := json.Marshal(script)
	if err != nil {
		return
	}
	_ = os.WriteFile(out+".journal", append(b, '\n'), 0o644)
}

// ---- real-time pause usable from inside a bubble ----------------------------

type realSleeper struct {
	req  chan time.Duration // created outside any bubble
	done chan struct{}
}

var (
	realSleepMu   sync.Mutex
	realSleepFree []*realSleeper
)

func init() {
	for i := 0; i < 16; i++ {
		rs := &realSleeper{req: make(chan time.Duration), done: make(chan struct{})}
		realSleepFree = append(realSleepFree, rs)
		go func() { // outside any bubble: real clock
			for d := range rs.req {
				time.Sleep(d)
				rs.done <- struct{}{}
			}
		}()
	}
}

// RealSleep pauses the calling goroutine for d of wall-clock time, also when
// called inside a synctest bubble (where time.Sleep is virtual and where the
// virtual clock cannot advance while a goroutine waits for a sync.Mutex).
// Up to 16 goroutines can sleep at the same time.
func RealSleep(d time.Duration) {
	var rs *realSleeper
	for rs == nil {
		realSleepMu.Lock()
		if n := len(realSleepFree); n > 0 {
			rs = realSleepFree[n-1]
			realSleepFree = realSleepFree[:n-1]
		}
		realSleepMu.Unlock()
		if rs == nil {
			runtime.Gosched()
		}
	}
	rs.req <- d
	<-rs.done
	realSleepMu.Lock()
	realSleepFree = append(realSleepFree, rs)
	realSleepMu.Unlock()
}

// FullStack returns the stacks of all goroutines.
func FullStack() string {
	buf := make([]byte, 8<<20)
	return string(buf[:runtime.Stack(buf, true)])
}

// IsInconclusive reports whether a Bubble error means "no verdict" (the case
// did not finish in wall-clock time and no deadlock could be shown).
func IsInconclusive(err error) bool {
	var inc *ErrInconclusive
	return errors.As(err, &inc)
}
