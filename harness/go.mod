module verifharness

go 1.26.8

require (
	github.com/enbility/go-avahi v0.0.0-20240909195612-d5de6b280d7a
	github.com/enbility/ship-go v0.0.0
	github.com/enbility/zeroconf/v2 v2.0.0-20240920094356-be1cae74fda6
	github.com/godbus/dbus/v5 v5.1.0
	github.com/gorilla/websocket v1.5.3
	pgregory.net/rapid v1.3.0
)

require (
	github.com/miekg/dns v1.1.62 // indirect
	gitlab.com/c0b/go-ordered-json v0.0.0-20201030195603-febf46534d5a // indirect
	golang.org/x/mod v0.21.0 // indirect
	golang.org/x/net v0.29.0 // indirect
	golang.org/x/sync v0.8.0 // indirect
	golang.org/x/sys v0.25.0 // indirect
	golang.org/x/tools v0.25.0 // indirect
)

replace github.com/enbility/ship-go => /repo
