package hubnet

import (
	"fmt"
	"os"
	"strings"
	"sync"
	"time"

	"pgregory.net/rapid"

	"github.com/enbility/ship-go/logging"
)

// the library's log lines at interleaving points of its goroutines
var slowLogPoints = []string{
	"incoming connection request from", // ServeHTTP, before the double connection decision
	"closing existing double connection",
	"double connection, as the existing connection will be used",
	"initiating connection to", // before the dial
	"trying to connect to",
	"delaying connection to",
	"SHIP state changed to: 39", // inside setState (error), before the state is reported
	"SHIP state changed to: 38", // completed
	"SHIP state changed to: 11", // pending listen
	"SHIP state changed to: 13", // hello ok
	"SHIP state changed to: 9",  // ready listen
}

// genSlowLog draws 0-2 slow-logger rules (most scenarios get none).
func genSlowLog(t *rapid.T, nodes int) []LogRule {
	n := rapid.SampledFrom([]int{0, 0, 0, 1, 1, 2}).Draw(t, "nSlowLog")
	var rs []LogRule
	for i := 0; i < n; i++ {
		rs = append(rs, LogRule{Match: rapid.SampledFrom(slowLogPoints).Draw(t, "logPoint"), Ski: rapid.IntRange(-1, nodes-1).Draw(t, "logSki"),
			Ms: rapid.SampledFrom([]int{30, 150, 400, 900}).Draw(t, "logMs")})
	}
	return rs
}

// A slow application logger as a source of schedules: the library logs through the logger the
// application installs (logging.SetLogging), at places that are interleaving points of its
// goroutines (before a double connection is closed, inside a state change, before a dial).
// A logger that takes long for certain lines (a full disk, a remote syslog) stretches exactly
// those points. Rules are registered per scenario and match on the text of the line; the
// logger is process wide, as the library's is.

// LogRule: a line that contains Match (and the SKI of node Ski, if Ski >= 0) takes Ms longer.
type LogRule struct {
	Match string `json:"match"`
	Ski   int    `json:"ski"`
	Ms    int    `json:"ms"`
}

type logRule struct {
	match, ski string
	d          time.Duration
}

type slowLogger struct {
	mu    sync.RWMutex
	rules map[int][]logRule
	next  int
}

var theLogger = &slowLogger{rules: map[int][]logRule{}}

func init() { logging.SetLogging(theLogger) }

// addLogRules registers the rules of one scenario; the returned function removes them.
func addLogRules(rs []logRule) func() {
	if len(rs) == 0 {
		return func() {}
	}
	theLogger.mu.Lock()
	id := theLogger.next
	theLogger.next++
	theLogger.rules[id] = rs
	theLogger.mu.Unlock()
	return func() {
		theLogger.mu.Lock()
		delete(theLogger.rules, id)
		theLogger.mu.Unlock()
	}
}

func (l *slowLogger) line(s string) {
	var d time.Duration
	l.mu.RLock()
	for _, rs := range l.rules {
		for _, r := range rs {
			if strings.Contains(s, r.match) && (r.ski == "" || strings.Contains(s, r.ski)) && r.d > d {
				d = r.d
			}
		}
	}
	l.mu.RUnlock()
	if d > 0 {
		time.Sleep(d)
	}
}

func (l *slowLogger) active() bool {
	l.mu.RLock()
	defer l.mu.RUnlock()
	return len(l.rules) > 0
}

var logPrint = os.Getenv("VERIF_LOGPRINT") != "" // development aid: print every line of the library's log
var logT0 = time.Now()

func (l *slowLogger) args(args ...interface{}) {
	if logPrint {
		fmt.Printf("LOG %6dms %s", time.Since(logT0).Milliseconds(), fmt.Sprintln(args...))
	}
	if l.active() {
		l.line(strings.TrimSpace(fmt.Sprintln(args...)))
	}
}

func (l *slowLogger) format(f string, args ...interface{}) {
	if logPrint {
		fmt.Printf("LOG %6dms %s\n", time.Since(logT0).Milliseconds(), fmt.Sprintf(f, args...))
	}
	if l.active() {
		l.line(fmt.Sprintf(f, args...))
	}
}

func (l *slowLogger) Trace(args ...interface{})            { l.args(args...) }
func (l *slowLogger) Tracef(f string, args ...interface{}) { l.format(f, args...) }
func (l *slowLogger) Debug(args ...interface{})            { l.args(args...) }
func (l *slowLogger) Debugf(f string, args ...interface{}) { l.format(f, args...) }
func (l *slowLogger) Info(args ...interface{})             { l.args(args...) }
func (l *slowLogger) Infof(f string, args ...interface{})  { l.format(f, args...) }
func (l *slowLogger) Error(args ...interface{})            { l.args(args...) }
func (l *slowLogger) Errorf(f string, args ...interface{}) { l.format(f, args...) }
