// Package hubnet is engine E4: real hub.Hub instances talking TLS+websocket
// to each other over loopback, each with a real mdns.MdnsManager on a harness
// mDNS fabric, and a TCP proxy per (dialler, target) pair so that every
// outbound connection is attributable and can be cut. Real time.
package hubnet

import (
	"crypto/tls"
	"crypto/x509"
	"fmt"
	"net"
	"strings"
	"sync"
	"sync/atomic"
	"time"

	"github.com/enbility/ship-go/api"
	"github.com/enbility/ship-go/cert"
	"github.com/enbility/ship-go/hub"
	"github.com/enbility/ship-go/mdns"
)

func init() {
	// scale the dial back-off: [0,1) s for every attempt class (unit in the code: whole seconds)
	hub.VerifSetDialDelayRanges([][2]int{{0, 1}, {0, 1}, {0, 1}})
}

// ---- application (HubReaderInterface) ------------------------------------------

// Ev is one callback received by an application.
type Ev struct {
	Seq   int64
	At    time.Duration
	Kind  string // connected | disconnected | setup | visible | shipid | pairing | payload
	Ski   string
	State int
	Data  string
}

type App struct {
	Name string
	mu   sync.Mutex
	Log  []Ev
	// latest writer handed out per SKI
	Writers     map[string]api.ShipConnectionDataWriterInterface
	AllowWait   bool
	start       time.Time
	seq         *atomic.Int64
	lastChange  atomic.Int64 // unix nanos of the last callback
	InFlight    atomic.Int32
	MaxInFlight atomic.Int32
	SlowPairing atomic.Int64 // ms the application needs for a pairing-detail notification
	SlowDisc    atomic.Int64 // ms the application needs for a disconnect notification
}

func (a *App) add(kind, ski string, state int, data string) {
	a.mu.Lock()
	a.Log = append(a.Log, Ev{Seq: a.seq.Add(1), At: time.Since(a.start), Kind: kind, Ski: ski, State: state, Data: data})
	a.mu.Unlock()
	a.lastChange.Store(time.Now().UnixNano())
}

func (a *App) RemoteSKIConnected(ski string)    { a.add("connected", ski, 0, "") }
func (a *App) RemoteSKIDisconnected(ski string) {
	a.add("disconnected", ski, 0, "")
	if ms := a.SlowDisc.Load(); ms > 0 {
		time.Sleep(time.Duration(ms) * time.Millisecond)
	}
}
func (a *App) SetupRemoteDevice(ski string, w api.ShipConnectionDataWriterInterface) api.ShipConnectionDataReaderInterface {
	a.mu.Lock()
	a.Writers[ski] = w
	a.mu.Unlock()
	a.add("setup", ski, 0, "")
	return &appReader{a, ski}
}
func (a *App) VisibleRemoteServicesUpdated(entries []api.RemoteService) {
	var s []string
	for _, e := range entries {
		s = append(s, e.Ski)
	}
	a.add("visible", "", len(entries), strings.Join(s, ","))
}
func (a *App) ServiceShipIDUpdate(ski, id string) { a.add("shipid", ski, 0, id) }
func (a *App) ServicePairingDetailUpdate(ski string, d *api.ConnectionStateDetail) {
	a.add("pairing", ski, int(d.State()), "")
	if ms := a.SlowPairing.Load(); ms > 0 {
		time.Sleep(time.Duration(ms) * time.Millisecond)
	}
}
func (a *App) AllowWaitingForTrust(ski string) bool {
	a.mu.Lock()
	defer a.mu.Unlock()
	return a.AllowWait
}

type appReader struct {
	a   *App
	ski string
}

func (r *appReader) HandleShipPayloadMessage(m []byte) { r.a.add("payload", r.ski, 0, string(m)) }

func (a *App) Events() []Ev {
	a.mu.Lock()
	defer a.mu.Unlock()
	return append([]Ev(nil), a.Log...)
}

func (a *App) Writer(ski string) api.ShipConnectionDataWriterInterface {
	a.mu.Lock()
	defer a.mu.Unlock()
	return a.Writers[ski]
}

// LastOf returns the last event of one of the kinds for a SKI ("" if none).
func (a *App) LastOf(ski string, kinds ...string) string {
	evs := a.Events()
	for i := len(evs) - 1; i >= 0; i-- {
		if evs[i].Ski != ski {
			continue
		}
		for _, k := range kinds {
			if evs[i].Kind == k {
				return k
			}
		}
	}
	return ""
}

// ---- mDNS fabric ------------------------------------------------------------------

type fabricProvider struct {
	f    *Fabric
	node int
	mu   sync.Mutex
	cb   api.MdnsResolveCB
	ann  *annData
	down bool
}

type annData struct {
	name string
	port int
	txt  []string
}

func (p *fabricProvider) Start(autoReconnect bool, cb api.MdnsResolveCB) bool {
	p.mu.Lock()
	p.cb = cb
	p.down = false
	p.mu.Unlock()
	return true
}
func (p *fabricProvider) Shutdown() {
	p.Unannounce()
	p.mu.Lock()
	p.down = true
	p.mu.Unlock()
}
func (p *fabricProvider) Announce(name string, port int, txt []string) error {
	p.mu.Lock()
	p.ann = &annData{name, port, append([]string(nil), txt...)}
	p.mu.Unlock()
	p.f.announced(p.node)
	return nil
}
func (p *fabricProvider) Unannounce() {
	p.mu.Lock()
	old := p.ann
	p.ann = nil
	p.mu.Unlock()
	if old != nil {
		p.f.withdrawn(p.node, old)
	}
}

// Node is one hub with its environment.
type Node struct {
	Idx  int
	Name string
	Cert tls.Certificate
	SKI  string
	Port int
	Hub  *hub.Hub
	Mdns *mdns.MdnsManager
	Prov *fabricProvider
	App  *App
	down atomic.Bool
}

// IsDown: the hub of this node was shut down.
func (n *Node) IsDown() bool { return n.down.Load() }

// Fabric connects the nodes.
type Fabric struct {
	mu      sync.Mutex
	Nodes   []*Node
	sees    map[[2]int]bool   // [x,y]: x sees y's announcements
	Proxies map[[2]int]*Proxy // [x,y]: the port x dials to reach y
	// Delivered[x,y]: usable addresses of y reported to x since y was last removed at x (what x's manager must know)
	Delivered map[[2]int][]string
	seq       atomic.Int64
	start     time.Time
	// node index -> map[int]string: SKIs the application registers before the next Start of that node
	pendingPaired sync.Map
	// UpperSkiTxt: the SKI in the TXT records the fabric delivers is written in upper case
	UpperSkiTxt atomic.Bool
}

func NewFabric() *Fabric {
	return &Fabric{sees: map[[2]int]bool{}, Proxies: map[[2]int]*Proxy{}, Delivered: map[[2]int][]string{}, start: time.Now()}
}

func txtElements(txt []string) map[string]string {
	m := map[string]string{}
	for _, t := range txt {
		if k, v, ok := strings.Cut(t, "="); ok {
			m[k] = v
		}
	}
	return m
}

func (f *Fabric) deliver(x, y int, ann *annData, remove bool) {
	f.mu.Lock()
	nx := f.Nodes[x]
	px := f.Proxies[[2]int{x, y}]
	f.mu.Unlock()
	nx.Prov.mu.Lock()
	cb, down := nx.Prov.cb, nx.Prov.down
	nx.Prov.mu.Unlock()
	if cb == nil || down || px == nil {
		return
	}
	var addrs []net.IP
	if !remove {
		// an IPv6 address first (nothing listens there: the hub sorts IPv4 to the front and falls through)
		addrs = []net.IP{net.ParseIP("::1"), net.ParseIP("127.0.0.1")}
	}
	// the entry x learns about y points at the proxy x->y
	f.noteDelivered(x, y, addrs, remove)
	txt := txtElements(ann.txt)
	if f.UpperSkiTxt.Load() {
		// a device may write its SKI in upper case in its TXT record; ship-go treats all spellings alike
		txt["ski"] = strings.ToUpper(txt["ski"])
	}
	cb(txt, ann.name, "", addrs, px.Port, remove)
}

func (f *Fabric) noteDelivered(x, y int, addrs []net.IP, remove bool) {
	f.mu.Lock()
	defer f.mu.Unlock()
	k := [2]int{x, y}
	if remove {
		delete(f.Delivered, k)
		return
	}
	for _, a := range addrs {
		if a.To4() == nil && a.IsLinkLocalUnicast() {
			continue
		}
		dup := false
		for _, have := range f.Delivered[k] {
			if have == a.String() {
				dup = true
			}
		}
		if !dup {
			f.Delivered[k] = append(f.Delivered[k], a.String())
		}
	}
	if _, ok := f.Delivered[k]; !ok {
		f.Delivered[k] = []string{}
	}
}

// Readdr: a further record for y (another address) reaches x, as avahi reports one record per address.
func (f *Fabric) Readdr(x, y, n int) {
	f.mu.Lock()
	nx, ny := f.Nodes[x], f.Nodes[y]
	px := f.Proxies[[2]int{x, y}]
	sees := f.sees[[2]int{x, y}]
	f.mu.Unlock()
	ny.Prov.mu.Lock()
	ann := ny.Prov.ann
	ny.Prov.mu.Unlock()
	nx.Prov.mu.Lock()
	cb, down := nx.Prov.cb, nx.Prov.down
	nx.Prov.mu.Unlock()
	if cb == nil || down || px == nil || ann == nil || !sees {
		return
	}
	extra := []net.IP{net.ParseIP(fmt.Sprintf("2001:db8::%x", n%200+1)), net.ParseIP(fmt.Sprintf("127.0.1.%d", n%200+1)), net.ParseIP("fe80::1")}
	f.noteDelivered(x, y, extra[n%3:n%3+1], false)
	cb(txtElements(ann.txt), ann.name, "", extra[n%3:n%3+1], px.Port, false)
}

func (f *Fabric) announced(y int) {
	f.mu.Lock()
	ny := f.Nodes[y]
	var xs []int
	for x := range f.Nodes {
		if x != y && f.sees[[2]int{x, y}] {
			xs = append(xs, x)
		}
	}
	f.mu.Unlock()
	ny.Prov.mu.Lock()
	ann := ny.Prov.ann
	ny.Prov.mu.Unlock()
	if ann == nil {
		return
	}
	for _, x := range xs {
		f.deliver(x, y, ann, false)
	}
}

func (f *Fabric) withdrawn(y int, old *annData) {
	f.mu.Lock()
	var xs []int
	for x := range f.Nodes {
		if x != y && f.sees[[2]int{x, y}] {
			xs = append(xs, x)
		}
	}
	f.mu.Unlock()
	for _, x := range xs {
		f.deliver(x, y, old, true)
	}
}

// SetSees makes x see (or stop seeing) y.
func (f *Fabric) SetSees(x, y int, on bool) {
	f.mu.Lock()
	was := f.sees[[2]int{x, y}]
	f.sees[[2]int{x, y}] = on
	ny := f.Nodes[y]
	f.mu.Unlock()
	if was == on {
		return
	}
	ny.Prov.mu.Lock()
	ann := ny.Prov.ann
	ny.Prov.mu.Unlock()
	if ann != nil {
		f.deliver(x, y, ann, !on)
	}
}

// AddNode creates a node (not yet started). certs may carry a pre-generated certificate.
func (f *Fabric) AddNode(name string, c *tls.Certificate) (*Node, error) {
	var certificate tls.Certificate
	var err error
	if c != nil {
		certificate = *c
	} else {
		certificate, err = cert.CreateCertificate("unit", "org", "DE", name)
		if err != nil {
			return nil, err
		}
	}
	leaf, err := x509.ParseCertificate(certificate.Certificate[0])
	if err != nil {
		return nil, err
	}
	ski, err := cert.SkiFromCertificate(leaf)
	if err != nil {
		return nil, err
	}
	f.mu.Lock()
	n := &Node{Idx: len(f.Nodes), Name: name, Cert: certificate, SKI: ski}
	f.Nodes = append(f.Nodes, n)
	f.mu.Unlock()
	n.App = &App{Name: name, Writers: map[string]api.ShipConnectionDataWriterInterface{}, AllowWait: true, start: f.start, seq: &f.seq}
	return n, nil
}

// StartNode creates hub + manager on a free port and starts them.
func (f *Fabric) StartNode(n *Node) error {
	for attempt := 0; attempt < 20; attempt++ {
		port, err := freePort()
		if err != nil {
			return err
		}
		n.Port = port
		n.Prov = &fabricProvider{f: f, node: n.Idx}
		n.Mdns = mdns.NewMDNS(n.SKI, "brand", "model", "type", "serial-"+n.Name, []api.DeviceCategoryType{api.DeviceCategoryTypeEnergyManagementSystem},
			"shipid-"+n.Name, "svc-"+n.Name, port, nil, mdns.MdnsProviderSelectionAll)
		local := api.NewServiceDetails(n.SKI)
		local.SetShipID("shipid-" + n.Name)
		mw := &mdnsWrap{MdnsManager: n.Mdns, prov: n.Prov}
		n.Hub = hub.NewHub(n.App, mw, port, n.Cert, local)
		if v, ok := f.pendingPaired.Load(n.Idx); ok {
			for _, ski := range v.(map[int]string) {
				n.Hub.RegisterRemoteSKI(ski) // before Start: restores a persisted pairing
			}
		}
		n.Hub.Start()
		n.down.Store(false)
		// Hub.Start swallows listen errors: make sure it is our hub that answers
		if f.reaches(n) {
			return nil
		}
		n.Hub.Shutdown()
	}
	return fmt.Errorf("could not start hub %s on a free port", n.Name)
}

// RestartNode starts a fresh hub (new port, same certificate) for a node whose hub was shut down.
// paired: the nodes whose SKIs the application registers again before Start.
func (f *Fabric) RestartNode(n *Node, paired []int) error {
	f.mu.Lock()
	skis := map[int]string{}
	for _, y := range paired {
		skis[y] = f.Nodes[y].SKI
	}
	f.mu.Unlock()
	f.pendingPaired.Store(n.Idx, skis)
	if err := f.StartNode(n); err != nil {
		return err
	}
	// what the restarted node's mDNS provider finds on the network
	f.mu.Lock()
	var ys []int
	for y := range f.Nodes {
		if y != n.Idx && f.sees[[2]int{n.Idx, y}] {
			ys = append(ys, y)
		}
	}
	f.mu.Unlock()
	for _, y := range ys {
		f.Nodes[y].Prov.mu.Lock()
		ann := f.Nodes[y].Prov.ann
		f.Nodes[y].Prov.mu.Unlock()
		if ann != nil {
			f.deliver(n.Idx, y, ann, false)
		}
	}
	return nil
}

// mdnsWrap makes Hub.Start use the fabric provider instead of avahi/zeroconf.
type mdnsWrap struct {
	*mdns.MdnsManager
	prov *fabricProvider
}

func (m *mdnsWrap) Start(cb api.MdnsReportInterface) error {
	return m.MdnsManager.VerifStartWithProvider(m.prov, cb)
}

func freePort() (int, error) {
	l, err := net.Listen("tcp", "127.0.0.1:0")
	if err != nil {
		return 0, err
	}
	defer l.Close()
	return l.Addr().(*net.TCPAddr).Port, nil
}

func (f *Fabric) reaches(n *Node) bool {
	probe, err := cert.CreateCertificate("probe", "org", "DE", "probe")
	if err != nil {
		return false
	}
	deadline := time.Now().Add(3 * time.Second)
	for time.Now().Before(deadline) {
		c, err := tls.DialWithDialer(&net.Dialer{Timeout: time.Second}, "tcp", fmt.Sprintf("127.0.0.1:%d", n.Port),
			&tls.Config{InsecureSkipVerify: true, Certificates: []tls.Certificate{probe}, CipherSuites: cert.CipherSuites, MaxVersion: tls.VersionTLS12})
		if err == nil {
			pcs := c.ConnectionState().PeerCertificates
			ok := len(pcs) > 0 && fmt.Sprintf("%0x", pcs[0].SubjectKeyId) == n.SKI
			c.Close()
			return ok
		}
		time.Sleep(20 * time.Millisecond)
	}
	return false
}

// Connect creates the proxies between all started nodes.
func (f *Fabric) Connect() error {
	f.mu.Lock()
	defer f.mu.Unlock()
	for x := range f.Nodes {
		for y := range f.Nodes {
			if x == y || f.Proxies[[2]int{x, y}] != nil {
				continue
			}
			p, err := newProxy(f, x, y)
			if err != nil {
				return err
			}
			f.Proxies[[2]int{x, y}] = p
		}
	}
	return nil
}

// Close shuts everything down.
func (f *Fabric) Close() {
	f.mu.Lock()
	nodes := append([]*Node(nil), f.Nodes...)
	var ps []*Proxy
	for _, p := range f.Proxies {
		ps = append(ps, p)
	}
	f.mu.Unlock()
	for _, n := range nodes {
		if n.Hub != nil && !n.IsDown() {
			n.Hub.Shutdown()
		}
	}
	for _, p := range ps {
		p.Close()
	}
}

// ---- TCP proxy ------------------------------------------------------------------------

type relay struct {
	p      *Proxy
	id     int
	a, b   net.Conn
	at     time.Duration
	closed atomic.Bool
	half   atomic.Bool // dialler side closed, target side kept open (stale)
	frozen atomic.Bool // this connection has become a black hole (connections made later are not affected)
}

// Proxy relays x's outbound connections to y and records them.
type Proxy struct {
	f      *Fabric
	X, Y   int
	Port   int
	l      net.Listener
	mu     sync.Mutex
	relays []*relay
	Refuse bool
	// DelayMs: a slow link - an accepted connection is held this long before it is relayed to the target
	DelayMs int
	closed bool
	frozen bool
	thaw   *sync.Cond
	Accept []time.Duration // times of accepted TCP connections
}

func newProxy(f *Fabric, x, y int) (*Proxy, error) {
	l, err := net.Listen("tcp", "127.0.0.1:0")
	if err != nil {
		return nil, err
	}
	p := &Proxy{f: f, X: x, Y: y, l: l, Port: l.Addr().(*net.TCPAddr).Port}
	p.thaw = sync.NewCond(&p.mu)
	go p.serve()
	return p, nil
}

func (p *Proxy) serve() {
	for {
		c, err := p.l.Accept()
		if err != nil {
			return
		}
		p.mu.Lock()
		p.Accept = append(p.Accept, time.Since(p.f.start))
		refuse := p.Refuse
		delay := p.DelayMs
		p.mu.Unlock()
		if refuse {
			c.Close()
			continue
		}
		if delay > 0 {
			go func() {
				time.Sleep(time.Duration(delay) * time.Millisecond)
				p.relay(c)
			}()
			continue
		}
		p.relay(c)
	}
}

// relay connects an accepted connection with the target hub and copies in both directions.
func (p *Proxy) relay(c net.Conn) {
	p.mu.Lock()
	target := p.f.Nodes[p.Y].Port
	id := len(p.relays)
	closed := p.closed
	p.mu.Unlock()
	if closed {
		c.Close()
		return
	}
	d, err := net.DialTimeout("tcp", fmt.Sprintf("127.0.0.1:%d", target), time.Second)
	if err != nil {
		c.Close()
		return
	}
	r := &relay{id: id, a: c, b: d, at: time.Since(p.f.start), p: p}
	p.mu.Lock()
	if p.closed {
		p.mu.Unlock()
		c.Close()
		d.Close()
		return
	}
	p.relays = append(p.relays, r)
	p.mu.Unlock()
	go func() {
		p.pipe(r, d, c)
		if !r.half.Load() {
			r.close()
		}
	}()
	go func() {
		p.pipe(r, c, d)
		if !r.half.Load() {
			r.close()
		}
	}()
}

// pipe copies src to dst; while the proxy is frozen (a black hole: the link is up, nothing gets
// through, nobody is told) the bytes are held back.
func (p *Proxy) pipe(r *relay, dst, src net.Conn) {
	buf := make([]byte, 32*1024)
	for {
		n, err := src.Read(buf)
		if n > 0 {
			p.mu.Lock()
			for (p.frozen || r.frozen.Load()) && !p.closed && !r.closed.Load() {
				p.thaw.Wait()
			}
			p.mu.Unlock()
			if _, werr := dst.Write(buf[:n]); werr != nil {
				return
			}
		}
		if err != nil {
			return
		}
	}
}

// FreezeExisting turns the connections that exist now into black holes; later ones work.
func (p *Proxy) FreezeExisting() int {
	p.mu.Lock()
	defer p.mu.Unlock()
	n := 0
	for _, r := range p.relays {
		if !r.closed.Load() {
			r.frozen.Store(true)
			n++
		}
	}
	return n
}

// SetFrozen turns the link into a black hole (or back): connections stay open, no byte gets through.
func (p *Proxy) SetFrozen(on bool) {
	p.mu.Lock()
	p.frozen = on
	if p.thaw == nil {
		p.thaw = sync.NewCond(&p.mu)
	}
	p.thaw.Broadcast()
	p.mu.Unlock()
}

// SetDelay makes the link slow: connections accepted from now on are held ms before they are relayed.
func (p *Proxy) SetDelay(ms int) {
	p.mu.Lock()
	p.DelayMs = ms
	p.mu.Unlock()
}

func (r *relay) close() {
	if r.closed.CompareAndSwap(false, true) {
		r.a.Close()
		r.b.Close()
		if r.p != nil {
			r.p.mu.Lock()
			r.p.thaw.Broadcast()
			r.p.mu.Unlock()
		}
	}
}

// Cut closes all live relays (both sockets).
func (p *Proxy) Cut() int {
	p.mu.Lock()
	rs := append([]*relay(nil), p.relays...)
	p.mu.Unlock()
	n := 0
	for _, r := range rs {
		if !r.closed.Load() {
			r.close()
			n++
		}
	}
	return n
}

// HalfCut closes only the dialler-side socket of every live relay; the target keeps its
// socket (and does not learn about the loss until it writes or its ping times out).
func (p *Proxy) HalfCut() int {
	p.mu.Lock()
	rs := append([]*relay(nil), p.relays...)
	p.mu.Unlock()
	n := 0
	for _, r := range rs {
		if !r.closed.Load() && r.half.CompareAndSwap(false, true) {
			r.a.Close()
			n++
		}
	}
	return n
}

func (p *Proxy) SetRefuse(on bool) {
	p.mu.Lock()
	p.Refuse = on
	p.mu.Unlock()
}

// Live returns the number of relayed connections that are still open.
func (p *Proxy) Live() int {
	p.mu.Lock()
	defer p.mu.Unlock()
	n := 0
	for _, r := range p.relays {
		if !r.closed.Load() && !r.half.Load() {
			n++
		}
	}
	return n
}

// Accepts returns the times at which TCP connections arrived.
func (p *Proxy) Accepts() []time.Duration {
	p.mu.Lock()
	defer p.mu.Unlock()
	return append([]time.Duration(nil), p.Accept...)
}

func (p *Proxy) Close() {
	p.mu.Lock()
	p.closed = true
	p.frozen = false
	p.thaw.Broadcast()
	rs := append([]*relay(nil), p.relays...)
	p.mu.Unlock()
	p.l.Close()
	for _, r := range rs {
		r.closed.Store(true)
		r.a.Close()
		r.b.Close()
	}
}

// ---- helpers -----------------------------------------------------------------------------

// Quiet waits until no application received a callback and no proxy accepted
// a connection for the given duration (or max elapsed). Returns false on timeout.
func (f *Fabric) Quiet(quiet, max time.Duration) bool {
	deadline := time.Now().Add(max)
	for time.Now().Before(deadline) {
		last := int64(0)
		f.mu.Lock()
		for _, n := range f.Nodes {
			if v := n.App.lastChange.Load(); v > last {
				last = v
			}
		}
		for _, p := range f.Proxies {
			p.mu.Lock()
			if k := len(p.Accept); k > 0 {
				if v := f.start.Add(p.Accept[k-1]).UnixNano(); v > last {
					last = v
				}
			}
			p.mu.Unlock()
		}
		f.mu.Unlock()
		if time.Since(time.Unix(0, last)) >= quiet {
			return true
		}
		time.Sleep(25 * time.Millisecond)
	}
	return false
}

// WaitFor polls cond until it holds or max elapsed.
func WaitFor(max time.Duration, cond func() bool) bool {
	deadline := time.Now().Add(max)
	for {
		if cond() {
			return true
		}
		if time.Now().After(deadline) {
			return false
		}
		time.Sleep(20 * time.Millisecond)
	}
}

// Completed: hub x has a registered, completed connection to y.
func (f *Fabric) Completed(x, y int) bool {
	nx, ny := f.Nodes[x], f.Nodes[y]
	if nx.IsDown() || nx.Hub == nil {
		return false
	}
	c := nx.Hub.VerifRegistry()[ny.SKI]
	if c == nil {
		return false
	}
	st, _ := c.ShipHandshakeState()
	return st == 38
}
