package hubnet

import (
	"fmt"
	"sort"
	"strings"
	"testing"
	"time"

	"pgregory.net/rapid"
)

// C17 at hub level: the manager's known services and their address sets must equal what the
// mDNS fabric reported, also while a real hub consumes the reports, patches the address list of
// registered services that have a fixed IPv4 address, dials and reconnects.
func genC17Hub(t *rapid.T) Scenario {
	sc := Scenario{N: 3, ZeroHigher: rapid.Bool().Draw(t, "zeroHigher"), FixedIPv4: rapid.Bool().Draw(t, "fixedIPv4")}
	n := rapid.IntRange(4, 16).Draw(t, "nOps")
	for i := 0; i < n; i++ {
		x := rapid.IntRange(0, 2).Draw(t, "x")
		y := (x + 1 + rapid.IntRange(0, 1).Draw(t, "dy")) % 3
		k := rapid.SampledFrom([]string{"appear", "appear", "register", "register", "readdr", "readdr", "readdr", "disappear", "cut", "unregister", "wait"}).Draw(t, "op")
		sc.Ops = append(sc.Ops, HubOp{K: k, X: x, Y: y, WaitMs: rapid.SampledFrom([]int{0, 0, 20, 200, 700}).Draw(t, "wait"), Conc: rapid.IntRange(0, 4).Draw(t, "conc") == 0})
	}
	return sc
}

func judgeC17Hub(sc Scenario) (key, msg string, nontrivial bool) {
	r := Execute(sc)
	defer r.Close()
	if r.Herr != "" {
		return "harness", r.Herr, false
	}
	f := r.F
	if !f.Quiet(settleQuiet, 20*time.Second) {
		return "inconclusive", "did not settle", false
	}
	f.mu.Lock()
	delivered := map[[2]int][]string{}
	for k, v := range f.Delivered {
		delivered[k] = append([]string(nil), v...)
	}
	f.mu.Unlock()
	for x := 0; x < sc.N; x++ {
		entries := f.Nodes[x].Mdns.VerifEntries()
		known := 0
		for y := 0; y < sc.N; y++ {
			if x == y {
				continue
			}
			want, seen := delivered[[2]int{x, y}]
			e := entries[f.Nodes[y].SKI]
			if !seen {
				if e != nil {
					return "C17/hub-unknown-service-known", fmt.Sprintf("hub %d knows hub %d although no (or a removed) announcement reached it. Ops %s", x, y, opsBrief(r.Ops)), true
				}
				continue
			}
			known++
			if len(want) > 2 {
				nontrivial = true
			}
			if e == nil {
				return "C17/hub-service-missing", fmt.Sprintf("hub %d does not know hub %d although its announcement was reported (addresses %v). Ops %s", x, y, want, opsBrief(r.Ops)), true
			}
			var got []string
			for _, ip := range e.Addresses {
				got = append(got, ip.String())
			}
			a, b := append([]string(nil), got...), append([]string(nil), want...)
			sort.Strings(a)
			sort.Strings(b)
			if strings.Join(a, ",") != strings.Join(b, ",") {
				return "C17/hub-address-set", fmt.Sprintf("hub %d knows hub %d with addresses %v, the usable addresses reported for it are %v (fixed IPv4 for registered services: %v). Ops %s",
					x, y, got, want, sc.FixedIPv4, opsBrief(r.Ops)), true
			}
		}
		if len(entries) != known {
			return "C17/hub-entry-count", fmt.Sprintf("hub %d knows %d services, %d were reported", x, len(entries), known), true
		}
	}
	return "", "", nontrivial
}

func TestC17Hub(t *testing.T) { runHubProperty(t, "C17", genC17Hub, judgeC17Hub) }
