package hubnet

import (
	"sync"
	"testing"
	"time"

	"pgregory.net/rapid"
)

// genC20: API calls from several goroutines while connections are accepted,
// dialled, handshaking, exchanging data and closing, and mDNS reports arrive.
func genC20(t *rapid.T) Scenario {
	sc := Scenario{N: 3, ZeroHigher: rapid.Bool().Draw(t, "zeroHigher")}
	// a connected core to have traffic at all
	for _, p := range [][2]int{{0, 1}, {1, 0}, {1, 2}, {2, 1}} {
		sc.Ops = append(sc.Ops, HubOp{K: "register", X: p[0], Y: p[1], Conc: true}, HubOp{K: "appear", X: p[0], Y: p[1], Conc: true})
	}
	sc.Ops = append(sc.Ops, HubOp{K: "wait", WaitMs: rapid.SampledFrom([]int{0, 100, 600, 1200}).Draw(t, "w0")})
	n := rapid.IntRange(8, 30).Draw(t, "nOps")
	for i := 0; i < n; i++ {
		x := rapid.IntRange(0, 2).Draw(t, "x")
		y := (x + 1 + rapid.IntRange(0, 1).Draw(t, "dy")) % 3
		k := rapid.SampledFrom([]string{"register", "unregister", "cancel", "cancel", "disconnect", "disconnect", "detail", "detail", "autoaccept", "payload", "payload",
			"appear", "disappear", "cut", "cut", "cut", "register", "register", "payload", "shutdown", "readdr", "readdr", "readdr"}).Draw(t, "op")
		if k == "shutdown" && rapid.IntRange(0, 3).Draw(t, "reallyShutdown") != 0 {
			k = "detail"
		}
		sc.Ops = append(sc.Ops, HubOp{K: k, X: x, Y: y, WaitMs: rapid.SampledFrom([]int{0, 0, 0, 1, 5, 30, 200, 600}).Draw(t, "wait"),
			Conc: rapid.IntRange(0, 3).Draw(t, "conc") != 0, Spell: rapid.SampledFrom([]int{0, 0, 0, 1, 2}).Draw(t, "spell")})
	}
	// stretched interleaving points: slow logger lines, a slow link
	sc.SlowLog = genSlowLog(t, sc.N)
	if ms := rapid.SampledFrom([]int{0, 0, 150, 500}).Draw(t, "slowLink"); ms > 0 {
		x := rapid.IntRange(0, 2).Draw(t, "slowFrom")
		sc.Ops = append([]HubOp{{K: "slow", X: x, Y: (x + 1) % 3, Ms: ms}}, sc.Ops...)
	}
	return sc
}

// judgeC20 only executes; the oracle is the race detector (reports are collected by the driver).
func judgeC20(sc Scenario) (string, string, bool) {
	r := Execute(sc)
	if r.Herr != "" {
		r.Close()
		return "harness", r.Herr, false
	}
	r.F.Quiet(600*time.Millisecond, 4*time.Second)
	// all hubs shut down at the same time, while connections are alive
	var wg sync.WaitGroup
	for _, n := range r.F.Nodes {
		if !n.IsDown() {
			wg.Add(1)
			go func(n *Node) { defer wg.Done(); n.Hub.Shutdown(); n.down.Store(true) }(n)
		}
	}
	wg.Wait()
	time.Sleep(300 * time.Millisecond)
	r.Close()
	conc := 0
	for _, o := range r.Ops {
		if o.Op.Conc && !o.Skipped {
			conc++
		}
	}
	return "", "", conc >= 2
}

func TestC20Hub(t *testing.T) { runHubProperty(t, "C20", genC20, judgeC20) }
