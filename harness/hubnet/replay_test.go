package hubnet

import (
	"testing"

	"verifharness/core"
)

// TestReplay executes a replay file with the monitor of its property, bypassing rapid.
func TestReplay(t *testing.T) {
	if *core.ReplayFlag == "" {
		t.Skip("no -script")
	}
	f, err := core.LoadReplay(*core.ReplayFlag)
	if err != nil {
		t.Fatal(err)
	}
	var key, msg string
	switch f.Test {
	case "TestC15":
		key, msg = replayC15(f.Script)
	case "TestC05":
		key, msg = replayScenario(f.Script, judgeC05)
	case "TestC10":
		key, msg = replayScenario(f.Script, judgeC10)
	case "TestC11Hub":
		key, msg = replayScenario(f.Script, judgeC11b)
	case "TestC01Hub":
		key, msg = replayScenario(f.Script, judgeC01Hub)
	case "TestC09Hub":
		key, msg = replayScenario(f.Script, judgeC09Hub)
	case "TestC17Hub":
		key, msg = replayScenario(f.Script, judgeC17Hub)
	case "TestC18Hub":
		key, msg = replayScenario(f.Script, judgeC18Hub)
	default:
		t.Fatalf("no replay handler for %s", f.Test)
	}
	core.ReplayVerdict(t, f.Property, key, msg)
}
