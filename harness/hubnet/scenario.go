package hubnet

import (
	"fmt"

	"github.com/enbility/ship-go/api"
	"strings"
	"sync"
	"time"
)

// HubOp is one step of a multi-hub scenario.
type HubOp struct {
	K      string `json:"k"` // register | unregister | cancel | disconnect | shutdown | restart | appear | disappear | cut | refuse | wait
	X      int    `json:"x"`
	Y      int    `json:"y"`
	WaitMs int    `json:"waitMs"`          // pause after the op
	Conc   bool   `json:"conc,omitempty"`  // issue concurrently with the next op (own goroutine)
	Spell  int    `json:"spell,omitempty"` // 0 = canonical SKI; 1 = upper case; 2 = dashes; 3 = blanks and mixed case
	Ms     int    `json:"ms,omitempty"`    // slow: delay of the link x->y in ms (0 = fast again)
}

// Scenario: N hubs, initial registration/visibility, ops, final quiet period.
type Scenario struct {
	N   int     `json:"n"`
	Ops []HubOp `json:"ops"`
	// AOrder: true = node 0 must have the higher SKI
	ZeroHigher bool `json:"zeroHigher"`
	// AutoAccept[i]: hub i runs with auto accept on (announces register=true); the user-intent model is not applied to such a hub
	AutoAccept []bool `json:"autoAccept,omitempty"`
	// FixedIPv4: every hub stores a fixed IPv4 address for the services it registers (ServiceDetails.SetIPv4)
	FixedIPv4 bool `json:"fixedIPv4,omitempty"`
	// SlowAppMs[i]: the application of hub i needs this long for a pairing-detail notification
	SlowAppMs []int `json:"slowAppMs,omitempty"`
	// NoWait[i]: the application of hub i does not allow waiting for trust (no user interface open):
	// pairing requests of SKIs that are not registered are denied at once
	NoWait []bool `json:"noWait,omitempty"`
	// SlowDiscMs[i]: the application of hub i needs this long for a disconnect notification
	SlowDiscMs []int `json:"slowDiscMs,omitempty"`
	// UpperSkiTxt: the devices write their SKI in upper case in their mDNS TXT records
	UpperSkiTxt bool `json:"upperSkiTxt,omitempty"`
	// SlowLog: log lines for which the application's logger is slow (see slowlog.go)
	SlowLog []LogRule `json:"slowLog,omitempty"`
}

// OpRec records when an op ran.
type OpRec struct {
	Op         HubOp
	Start, End time.Duration
	Skipped    bool
	// cancel: the connection registered for Y on X just before the call, and its handshake state
	Conn        api.ShipConnectionInterface
	StateBefore int
}

// Run is a finished scenario.
type Run struct {
	F         *Fabric
	Ops       []OpRec
	Herr      string
	Overshoot time.Duration // worst scheduling delay observed by the watchdog
	fixedIPv4 bool
	unlog     func() // removes the scenario's slow-logger rules
	regMu     sync.Mutex
	reg       map[[2]int]bool // what the user of x has registered (persisted pairing, restored after a restart)
}

// overshoot watchdog: measures how late a 10 ms sleep wakes up
func watchdog(stop chan struct{}, worst *time.Duration, mu *sync.Mutex) {
	for {
		select {
		case <-stop:
			return
		default:
		}
		t0 := time.Now()
		time.Sleep(10 * time.Millisecond)
		if d := time.Since(t0) - 10*time.Millisecond; d > 0 {
			mu.Lock()
			if d > *worst {
				*worst = d
			}
			mu.Unlock()
		}
	}
}

// Execute builds the fabric and runs the ops. The caller closes r.F.
func Execute(sc Scenario) *Run {
	r := &Run{F: NewFabric(), fixedIPv4: sc.FixedIPv4, reg: map[[2]int]bool{}, unlog: func() {}}
	f := r.F
	f.UpperSkiTxt.Store(sc.UpperSkiTxt)
	for i := 0; i < sc.N; i++ {
		if _, err := f.AddNode(fmt.Sprintf("N%d", i), nil); err != nil {
			r.Herr = err.Error()
			return r
		}
	}
	// SKI order between node 0 and node 1 as requested
	for tries := 0; tries < 40 && sc.N >= 2 && (f.Nodes[0].SKI > f.Nodes[1].SKI) != sc.ZeroHigher; tries++ {
		n, err := NewFabric().AddNode("N0", nil)
		if err != nil {
			r.Herr = err.Error()
			return r
		}
		f.Nodes[0].Cert, f.Nodes[0].SKI = n.Cert, n.SKI
	}
	for _, n := range f.Nodes {
		if err := f.StartNode(n); err != nil {
			r.Herr = err.Error()
			return r
		}
	}
	if err := f.Connect(); err != nil {
		r.Herr = err.Error()
		return r
	}
	var rules []logRule
	for _, lr := range sc.SlowLog {
		rule := logRule{match: lr.Match, d: time.Duration(lr.Ms) * time.Millisecond}
		if lr.Ski >= 0 && lr.Ski < len(f.Nodes) {
			rule.ski = f.Nodes[lr.Ski].SKI
		}
		rules = append(rules, rule)
	}
	r.unlog = addLogRules(rules)
	for i, n := range f.Nodes {
		if i < len(sc.AutoAccept) && sc.AutoAccept[i] {
			n.Hub.SetAutoAccept(true)
		}
		if i < len(sc.SlowAppMs) {
			n.App.SlowPairing.Store(int64(sc.SlowAppMs[i]))
		}
		if i < len(sc.SlowDiscMs) {
			n.App.SlowDisc.Store(int64(sc.SlowDiscMs[i]))
		}
		if i < len(sc.NoWait) && sc.NoWait[i] {
			n.App.mu.Lock()
			n.App.AllowWait = false
			n.App.mu.Unlock()
		}
	}
	stop := make(chan struct{})
	var wmu sync.Mutex
	go watchdog(stop, &r.Overshoot, &wmu)
	defer close(stop)

	var wg sync.WaitGroup
	var rmu sync.Mutex
	r.Ops = make([]OpRec, len(sc.Ops))
	for i, op := range sc.Ops {
		run := func(i int, op HubOp) {
			rec := OpRec{Op: op, Start: time.Since(f.start), StateBefore: -1}
			if (op.K == "cancel" || op.K == "unregister") && op.X != op.Y && !f.Nodes[op.X].IsDown() {
				if c := f.Nodes[op.X].Hub.VerifRegistry()[f.Nodes[op.Y].SKI]; c != nil {
					st, _ := c.ShipHandshakeState()
					rec.Conn, rec.StateBefore = c, int(st)
				}
			}
			rec.Skipped = !r.apply(op)
			rec.End = time.Since(f.start)
			rmu.Lock()
			r.Ops[i] = rec
			rmu.Unlock()
		}
		if op.Conc {
			wg.Add(1)
			go func(i int, op HubOp) { defer wg.Done(); run(i, op) }(i, op)
		} else {
			run(i, op)
		}
		if op.WaitMs > 0 {
			time.Sleep(time.Duration(op.WaitMs) * time.Millisecond)
		}
	}
	wg.Wait()
	wmu.Lock()
	defer wmu.Unlock()
	return r
}

func (r *Run) apply(op HubOp) bool {
	f := r.F
	if op.X < 0 || op.X >= len(f.Nodes) || op.Y < 0 || op.Y >= len(f.Nodes) {
		return false
	}
	nx, ny := f.Nodes[op.X], f.Nodes[op.Y]
	ySKI := SpellSKI(ny.SKI, op.Spell)
	hubOp := op.K == "register" || op.K == "unregister" || op.K == "cancel" || op.K == "disconnect" || op.K == "shutdown" || op.K == "restart"
	if hubOp && nx.IsDown() {
		return false
	}
	switch op.K {
	case "register":
		if op.X == op.Y {
			return false
		}
		if r.fixedIPv4 {
			nx.Hub.ServiceForSKI(ny.SKI).SetIPv4("127.0.0.1")
		}
		nx.Hub.RegisterRemoteSKI(ySKI)
		r.regMu.Lock()
		r.reg[[2]int{op.X, op.Y}] = true
		r.regMu.Unlock()
	case "restart":
		// the application is stopped and started again with the same certificate; it restores its
		// persisted pairings before starting the hub, as the API documents
		nx.Hub.Shutdown()
		nx.down.Store(true)
		time.Sleep(time.Duration(50+op.WaitMs/4) * time.Millisecond)
		r.regMu.Lock()
		var paired []int
		for k, v := range r.reg {
			if v && k[0] == op.X {
				paired = append(paired, k[1])
			}
		}
		r.regMu.Unlock()
		if err := f.RestartNode(nx, paired); err != nil {
			return false
		}
	case "unregister":
		if op.X == op.Y {
			return false
		}
		nx.Hub.UnregisterRemoteSKI(ySKI)
		r.regMu.Lock()
		r.reg[[2]int{op.X, op.Y}] = false
		r.regMu.Unlock()
	case "cancel":
		if op.X == op.Y {
			return false
		}
		nx.Hub.CancelPairingWithSKI(ySKI)
	case "disconnect":
		if op.X == op.Y {
			return false
		}
		nx.Hub.DisconnectSKI(ySKI, "test")
	case "shutdown":
		nx.Hub.Shutdown()
		nx.down.Store(true)
	case "appear":
		if op.X == op.Y {
			return false
		}
		f.SetSees(op.X, op.Y, true)
	case "disappear":
		if op.X == op.Y {
			return false
		}
		f.SetSees(op.X, op.Y, false)
	case "cut":
		if op.X == op.Y {
			return false
		}
		return f.Proxies[[2]int{op.X, op.Y}].Cut() > 0
	case "halfcut":
		// only the dialler's socket is closed: x notices at once, y keeps a stale connection
		if op.X == op.Y {
			return false
		}
		return f.Proxies[[2]int{op.X, op.Y}].HalfCut() > 0
	case "refuse":
		if op.X == op.Y {
			return false
		}
		p := f.Proxies[[2]int{op.X, op.Y}]
		p.SetRefuse(true)
		go func() { time.Sleep(time.Duration(300+op.WaitMs) * time.Millisecond); p.SetRefuse(false) }()
	case "freeze", "thaw":
		// the links between x and y (both directions) become a black hole / work again
		if op.X == op.Y {
			return false
		}
		f.Proxies[[2]int{op.X, op.Y}].SetFrozen(op.K == "freeze")
		f.Proxies[[2]int{op.Y, op.X}].SetFrozen(op.K == "freeze")
	case "freezeOld":
		// the connections that exist between x and y become black holes; new ones work
		if op.X == op.Y {
			return false
		}
		return f.Proxies[[2]int{op.X, op.Y}].FreezeExisting()+f.Proxies[[2]int{op.Y, op.X}].FreezeExisting() > 0
	case "slow":
		// the link x->y becomes slow: connections x opens to y take op.Ms longer to get through
		if op.X == op.Y {
			return false
		}
		f.Proxies[[2]int{op.X, op.Y}].SetDelay(op.Ms)
	case "readdr":
		if op.X == op.Y {
			return false
		}
		f.Readdr(op.X, op.Y, op.WaitMs)
	case "detail":
		if nx.IsDown() || op.X == op.Y {
			return false
		}
		_ = nx.Hub.PairingDetailForSki(ySKI).State()
	case "autoaccept":
		if nx.IsDown() {
			return false
		}
		nx.Hub.SetAutoAccept(op.WaitMs%2 == 0)
	case "payload":
		if nx.IsDown() || op.X == op.Y {
			return false
		}
		w := nx.App.Writer(ny.SKI)
		if w == nil {
			return false
		}
		w.WriteShipMessageWithPayload([]byte(fmt.Sprintf(`{"datagram":{"from":%d,"n":%d}}`, op.X, op.WaitMs)))
	case "wait":
	default:
		return false
	}
	return true
}

// SpellSKI returns another spelling of the same SKI.
func SpellSKI(ski string, kind int) string {
	switch kind {
	case 1:
		return strings.ToUpper(ski)
	case 2:
		var b strings.Builder
		for i, c := range ski {
			if i > 0 && i%2 == 0 {
				b.WriteByte('-')
			}
			b.WriteRune(c)
		}
		return b.String()
	case 3:
		var b strings.Builder
		for i, c := range ski {
			if i > 0 && i%4 == 0 {
				b.WriteByte(' ')
			}
			if i%3 == 0 {
				b.WriteString(strings.ToUpper(string(c)))
			} else {
				b.WriteRune(c)
			}
		}
		return b.String()
	}
	return ski
}

// Payload round trip from x to y through x's latest writer; true if y's reader got it.
func (f *Fabric) Echo(x, y int, n int) bool {
	nx, ny := f.Nodes[x], f.Nodes[y]
	w := nx.App.Writer(ny.SKI)
	if w == nil {
		return false
	}
	tag := fmt.Sprintf(`"n":%d`, n)
	w.WriteShipMessageWithPayload([]byte(fmt.Sprintf(`{"datagram":{"from":%d,"n":%d}}`, x, n)))
	return WaitFor(2*time.Second, func() bool {
		for _, e := range ny.App.Events() {
			if e.Kind == "payload" && e.Ski == nx.SKI && strings.Contains(e.Data, tag) {
				return true
			}
		}
		return false
	})
}

// LiveBetween counts open relayed TCP connections between x and y (both directions).
func (f *Fabric) LiveBetween(x, y int) int {
	return f.Proxies[[2]int{x, y}].Live() + f.Proxies[[2]int{y, x}].Live()
}

// Describe renders the tail of all application logs (for failure messages).
func (f *Fabric) Describe(max int) string {
	var b strings.Builder
	for _, n := range f.Nodes {
		evs := n.App.Events()
		if len(evs) > max {
			evs = evs[len(evs)-max:]
		}
		fmt.Fprintf(&b, "\n  %s(%s..):", n.Name, n.SKI[:6])
		for _, e := range evs {
			if e.Kind == "visible" {
				continue
			}
			ski := e.Ski
			if len(ski) > 6 {
				ski = ski[:6]
			}
			fmt.Fprintf(&b, " %dms:%s(%s,%d)", e.At.Milliseconds(), e.Kind, ski, e.State)
		}
	}
	for k, p := range f.Proxies {
		fmt.Fprintf(&b, "\n  proxy %d->%d accepts=%v live=%d", k[0], k[1], p.Accepts(), p.Live())
	}
	return b.String()
}

// Close ends the scenario: slow-logger rules are removed, hubs shut down, proxies closed.
func (r *Run) Close() {
	r.unlog()
	r.F.Close()
}
