package hubnet

import (
	"encoding/json"
	"fmt"
	"sync"
	"testing"
	"time"

	"pgregory.net/rapid"

	"verifharness/core"
)

// ---- C05: convergence to exactly one working connection ----------------------------

func genC05(t *rapid.T) Scenario {
	sc := Scenario{N: 2, ZeroHigher: rapid.Bool().Draw(t, "zeroHigher")}
	if rapid.IntRange(0, 7).Draw(t, "slowGoodbye") == 0 {
		// the connection is lost while the applications are slow in taking note of it: the hubs redial
		// and complete the next connection while a disconnect notification is still being delivered
		sc.SlowDiscMs = []int{rapid.SampledFrom([]int{0, 900, 1600}).Draw(t, "sd0"), rapid.SampledFrom([]int{900, 1600}).Draw(t, "sd1"), 0}
		if rapid.Bool().Draw(t, "sdSwap") {
			sc.SlowDiscMs[0], sc.SlowDiscMs[1] = sc.SlowDiscMs[1], sc.SlowDiscMs[0]
		}
		sc.Ops = []HubOp{{K: "register", X: 0, Y: 1}, {K: "register", X: 1, Y: 0}, {K: "appear", X: 0, Y: 1}, {K: "appear", X: 1, Y: 0, WaitMs: 1300}}
		for i, n := 0, rapid.IntRange(1, 3).Draw(t, "nLoss"); i < n; i++ {
			x := rapid.IntRange(0, 1).Draw(t, "lx")
			sc.Ops = append(sc.Ops, HubOp{K: rapid.SampledFrom([]string{"cut", "cut", "disconnect"}).Draw(t, "loss"), X: x, Y: 1 - x, Conc: true},
				HubOp{K: "cut", X: 1 - x, Y: x, WaitMs: rapid.SampledFrom([]int{400, 1200, 2500}).Draw(t, "lw")})
		}
		return sc
	}
	if rapid.IntRange(0, 7).Draw(t, "closeThenLoss") == 0 {
		// a graceful close whose confirm never comes: the link dies within the 500 ms the closing side waits
		x := rapid.IntRange(0, 1).Draw(t, "cx")
		sc.Ops = []HubOp{{K: "register", X: 0, Y: 1}, {K: "register", X: 1, Y: 0}, {K: "appear", X: 0, Y: 1}, {K: "appear", X: 1, Y: 0, WaitMs: 1300},
			{K: "disconnect", X: x, Y: 1 - x, WaitMs: rapid.SampledFrom([]int{0, 20, 150}).Draw(t, "cw")},
			// (a cut, not a black hole: a hub that keeps a silently dead connection only notices after its 60 s pong wait,
			// which this run does not wait for)
			{K: "cut", X: rapid.SampledFrom([]int{x, 1 - x}).Draw(t, "cdir"), Y: 0, WaitMs: 1500}}
		sc.Ops[5].Y = 1 - sc.Ops[5].X
		return sc
	}
	if rapid.IntRange(0, 5).Draw(t, "deniedFirst") == 0 {
		// x asks first; y has no user interface open and denies at once; while the denied connection
		// still lingers (about a second) y's user registers x as well
		x := rapid.IntRange(0, 1).Draw(t, "dx")
		y := 1 - x
		sc.NoWait = []bool{y == 0, y == 1}
		sc.Ops = []HubOp{{K: "register", X: x, Y: y}, {K: "appear", X: x, Y: y, WaitMs: rapid.SampledFrom([]int{100, 300, 600, 900, 1300}).Draw(t, "linger")},
			{K: "register", X: y, Y: x, WaitMs: rapid.SampledFrom([]int{0, 200}).Draw(t, "w1")}, {K: "appear", X: y, Y: x, WaitMs: 500}}
		for i, n := 0, rapid.IntRange(0, 2).Draw(t, "nDisturb"); i < n; i++ {
			who := rapid.IntRange(0, 1).Draw(t, "who")
			sc.Ops = append(sc.Ops, HubOp{K: rapid.SampledFrom([]string{"disconnect", "cut"}).Draw(t, "disturb"), X: who, Y: 1 - who, WaitMs: rapid.SampledFrom([]int{0, 300, 1500}).Draw(t, "dw")})
		}
		return sc
	}
	if rapid.IntRange(0, 2).Draw(t, "bystander") == 0 {
		sc.N = 3
	}
	w := func(label string) int {
		return rapid.SampledFrom([]int{0, 0, 5, 50, 300, 900, 1500}).Draw(t, label)
	}
	// registration and visibility in a drawn order and timing
	setup := []HubOp{{K: "register", X: 0, Y: 1}, {K: "register", X: 1, Y: 0}, {K: "appear", X: 0, Y: 1}, {K: "appear", X: 1, Y: 0}}
	perm := rapid.Permutation(setup).Draw(t, "setupOrder")
	simultaneous := rapid.Bool().Draw(t, "simultaneous")
	for i := range perm {
		if simultaneous {
			perm[i].Conc = true
		} else {
			perm[i].WaitMs = w("setupWait")
		}
		sc.Ops = append(sc.Ops, perm[i])
	}
	if sc.N == 3 {
		sc.Ops = append(sc.Ops, HubOp{K: "appear", X: 0, Y: 2}, HubOp{K: "appear", X: 1, Y: 2}, HubOp{K: "appear", X: 2, Y: 0})
	}
	sc.Ops = append(sc.Ops, HubOp{K: "wait", WaitMs: rapid.SampledFrom([]int{0, 200, 1200, 2500}).Draw(t, "afterSetup")})
	n := rapid.IntRange(0, 5).Draw(t, "nDisturb")
	for i := 0; i < n; i++ {
		x := rapid.IntRange(0, 1).Draw(t, "who")
		op := HubOp{K: rapid.SampledFrom([]string{"disconnect", "disconnect", "cut", "cut", "refuse", "disappear", "appear", "restart"}).Draw(t, "disturb"), X: x, Y: 1 - x, WaitMs: w("disturbWait")}
		op.Conc = rapid.IntRange(0, 3).Draw(t, "conc") == 0
		sc.Ops = append(sc.Ops, op)
	}
	// whatever was hidden becomes visible again for the quiet period
	sc.Ops = append(sc.Ops, HubOp{K: "appear", X: 0, Y: 1}, HubOp{K: "appear", X: 1, Y: 0})
	// sometimes an application does not let requests wait for its user: requests of SKIs that are not
	// registered yet are denied at once and the denied connection lingers for about a second
	if rapid.IntRange(0, 3).Draw(t, "noWait") == 0 {
		sc.NoWait = []bool{rapid.Bool().Draw(t, "noWait0"), rapid.Bool().Draw(t, "noWait1"), false}
	}
	// sometimes an application is slow in taking note of a lost connection (the other hub redials meanwhile),
	// sometimes the devices spell their SKI in upper case in their TXT records
	if rapid.IntRange(0, 3).Draw(t, "slowDisc") == 0 {
		sc.SlowDiscMs = []int{rapid.SampledFrom([]int{0, 600, 1500}).Draw(t, "slowDisc0"), rapid.SampledFrom([]int{0, 600, 1500}).Draw(t, "slowDisc1"), 0}
	}
	sc.UpperSkiTxt = rapid.IntRange(0, 4).Draw(t, "upperSkiTxt") == 0
	// sometimes the application's logger is slow for certain lines, or a link is slow (schedules)
	sc.SlowLog = genSlowLog(t, sc.N)
	if ms := rapid.SampledFrom([]int{0, 0, 0, 200, 700}).Draw(t, "slowLink"); ms > 0 {
		x := rapid.IntRange(0, 1).Draw(t, "slowFrom")
		sc.Ops = append([]HubOp{{K: "slow", X: x, Y: 1 - x, Ms: ms}}, sc.Ops...)
	}
	return sc
}

// converged: exactly one completed, registered, working connection between 0 and 1
func converged(f *Fabric, n *int) (bool, string) {
	if !f.Completed(0, 1) || !f.Completed(1, 0) {
		return false, "not both sides have a registered completed connection"
	}
	if live := f.LiveBetween(0, 1); live != 1 {
		return false, fmt.Sprintf("%d live TCP connections between the hubs", live)
	}
	*n++
	if !f.Echo(0, 1, *n) {
		return false, "a payload from hub 0 did not reach hub 1 through the latest writer"
	}
	*n++
	if !f.Echo(1, 0, *n) {
		return false, "a payload from hub 1 did not reach hub 0 through the latest writer"
	}
	// still the same single connection after the payloads
	if !f.Completed(0, 1) || !f.Completed(1, 0) || f.LiveBetween(0, 1) != 1 {
		return false, "the connection did not survive the payload exchange"
	}
	return true, ""
}

func judgeC05(sc Scenario) (key, msg string, nontrivial bool) {
	r := Execute(sc)
	defer r.Close()
	if r.Herr != "" {
		return "harness", r.Herr, false
	}
	f := r.F
	// the property speaks of two hubs that have registered each other: a register that did not
	// take place (issued while that hub was being restarted) puts the scenario outside of it
	for _, o := range r.Ops {
		if o.Op.K == "register" && o.Skipped {
			return "", "", false
		}
	}
	echo := 0
	why := ""
	// for the livelock clause below: connection attempts between the two hubs after the last
	// operation, and whether both hubs ever had a completed connection at the same time since
	attemptsBefore := len(f.Proxies[[2]int{0, 1}].Accepts()) + len(f.Proxies[[2]int{1, 0}].Accepts())
	everBoth := false
	ok := WaitFor(40*time.Second, func() bool {
		if f.Completed(0, 1) && f.Completed(1, 0) {
			everBoth = true
		}
		if !f.Completed(0, 1) || !f.Completed(1, 0) || f.LiveBetween(0, 1) != 1 {
			return false
		}
		// stable for a moment (a double connection may still be resolving)
		if !f.Quiet(1200*time.Millisecond, 3*time.Second) {
			return false
		}
		var c bool
		c, why = converged(f, &echo)
		return c
	})
	dials := len(f.Proxies[[2]int{0, 1}].Accepts()) > 0 && len(f.Proxies[[2]int{1, 0}].Accepts()) > 0
	disturbed := false
	for _, o := range r.Ops {
		if !o.Skipped && (o.Op.K == "disconnect" || o.Op.K == "cut" || o.Op.K == "halfcut" || o.Op.K == "restart") {
			disturbed = true
		}
	}
	nontrivial = dials || disturbed
	if ok {
		return "", "", nontrivial
	}
	// not converged at the bound: stuck and wrong, or just still busy?
	if f.Quiet(6*time.Second, 10*time.Second) {
		if c, w := converged(f, &echo); !c {
			return "C05/stuck", fmt.Sprintf("the hubs are quiescent for 6 s (no callback, no TCP connection attempt) but: %s (earlier: %s). Ops %+v%s", w, why, sc.Ops, f.Describe(14)), nontrivial
		}
		return "", "", nontrivial
	}
	// still busy at the bound. Busy and getting somewhere is inconclusive; a cycle of connection
	// attempts none of which ever led to a completed connection on both hubs is a livelock
	// (counted in events, not in time: a convergence takes one or two attempts)
	attempts := len(f.Proxies[[2]int{0, 1}].Accepts()) + len(f.Proxies[[2]int{1, 0}].Accepts()) - attemptsBefore
	if !everBoth && attempts >= 10 {
		return "C05/livelock", fmt.Sprintf("%d connection attempts between the hubs after the last operation and never a completed connection on both of them (still cycling at the bound). Ops %+v%s",
			attempts, sc.Ops, f.Describe(14)), nontrivial
	}
	return "inconclusive", "still busy at the bound: " + why, nontrivial
}

// ---- C10: pairing follows user intent --------------------------------------------------

// focused scenarios: one pair, one story, nothing else going on
func genC10Focused(t *rapid.T) Scenario {
	sc := Scenario{N: 3, ZeroHigher: rapid.Bool().Draw(t, "zeroHigher"), SlowAppMs: []int{0, 0, 0}, AutoAccept: []bool{false, false, false}}
	x := rapid.IntRange(0, 1).Draw(t, "fx")
	y := 1 - x
	w := func() int { return rapid.SampledFrom([]int{0, 30, 150, 500, 1100, 1700}).Draw(t, "fw") }
	sp := func() int { return rapid.SampledFrom([]int{0, 0, 1, 2, 3}).Draw(t, "fspell") }
	switch rapid.IntRange(0, 7).Draw(t, "focus") {
	case 7: // the peer has silently gone (black hole) when the user removes the pairing or disconnects: x must end the connection on its own
		sc.Ops = []HubOp{{K: "register", X: x, Y: y}, {K: "register", X: y, Y: x}, {K: "appear", X: x, Y: y}, {K: "appear", X: y, Y: x, WaitMs: 1300},
			{K: "disappear", X: x, Y: y}, {K: "freeze", X: x, Y: y, WaitMs: rapid.SampledFrom([]int{0, 200}).Draw(t, "w8")},
			{K: rapid.SampledFrom([]string{"unregister", "unregister", "cancel"}).Draw(t, "revoke"), X: x, Y: y, WaitMs: 2500, Spell: sp()}}
	case 5: // the link to y is slow: the user withdraws the pairing while x's dial is still on its way; y would accept at once
		sc.AutoAccept[y] = rapid.Bool().Draw(t, "peerAuto")
		slow := rapid.SampledFrom([]int{150, 400, 900}).Draw(t, "slowMs")
		revoke := rapid.SampledFrom([]string{"unregister", "cancel"}).Draw(t, "revoke")
		sc.Ops = []HubOp{{K: "slow", X: x, Y: y, Ms: slow}, {K: "register", X: y, Y: x}, {K: "appear", X: x, Y: y},
			{K: "register", X: x, Y: y, WaitMs: rapid.SampledFrom([]int{20, 60, 120}).Draw(t, "w6"), Spell: sp()},
			{K: revoke, X: x, Y: y, WaitMs: slow + 1500, Spell: sp()}}
	case 6: // the same while a redial after a lost connection is on its way
		slow := rapid.SampledFrom([]int{400, 900}).Draw(t, "slowMs")
		sc.Ops = []HubOp{{K: "register", X: x, Y: y}, {K: "register", X: y, Y: x}, {K: "appear", X: x, Y: y, WaitMs: 1200},
			{K: "slow", X: x, Y: y, Ms: slow}, {K: "cut", X: x, Y: y, WaitMs: rapid.SampledFrom([]int{1050, 1200}).Draw(t, "w7")},
			{K: rapid.SampledFrom([]string{"unregister", "cancel"}).Draw(t, "revoke"), X: x, Y: y, WaitMs: slow + 1800, Spell: sp()}}
	case 0: // x asks y, cancels while its application is slow, y approves in that moment
		sc.SlowAppMs[x] = rapid.SampledFrom([]int{300, 600}).Draw(t, "slow")
		sc.Ops = []HubOp{{K: "appear", X: x, Y: y}, {K: "register", X: x, Y: y, WaitMs: rapid.SampledFrom([]int{300, 800, 1500}).Draw(t, "w1")},
			{K: "cancel", X: x, Y: y, Conc: true, WaitMs: rapid.SampledFrom([]int{10, 60, 150}).Draw(t, "w2"), Spell: sp()},
			{K: "register", X: y, Y: x, WaitMs: 1500}}
	case 1: // register while invisible, unregister, then the service appears
		sc.Ops = []HubOp{{K: "register", X: x, Y: y, WaitMs: w(), Spell: sp()}, {K: "unregister", X: x, Y: y, WaitMs: w(), Spell: sp()},
			{K: "appear", X: x, Y: y, WaitMs: w()}, {K: "register", X: y, Y: x}, {K: "appear", X: y, Y: x, WaitMs: 1500}}
	case 2: // pairing with a peer that announces register=true, then revoked, then the peer knocks
		sc.AutoAccept[y] = true
		sc.Ops = []HubOp{{K: "appear", X: x, Y: y}, {K: "register", X: x, Y: y, WaitMs: w(), Spell: sp()}, {K: "unregister", X: x, Y: y, WaitMs: w(), Spell: sp()},
			{K: "register", X: y, Y: x}, {K: "appear", X: y, Y: x, WaitMs: 1800}}
	case 3: // unregister inside the back-off window of a redial, then register again
		sc.Ops = []HubOp{{K: "register", X: x, Y: y}, {K: "register", X: y, Y: x}, {K: "appear", X: x, Y: y}, {K: "appear", X: y, Y: x, WaitMs: 1200},
			{K: "cut", X: x, Y: y}, {K: "cut", X: y, Y: x, WaitMs: rapid.SampledFrom([]int{20, 200, 500}).Draw(t, "w3")},
			{K: "unregister", X: x, Y: y, WaitMs: rapid.SampledFrom([]int{0, 100, 400}).Draw(t, "w4"), Spell: sp()}, {K: "wait", WaitMs: 1500}}
	default: // shutdown with live connections and pending redials
		sc.Ops = []HubOp{{K: "register", X: x, Y: y}, {K: "register", X: y, Y: x}, {K: "appear", X: x, Y: y}, {K: "appear", X: y, Y: x, WaitMs: 1200},
			{K: "cut", X: x, Y: y, WaitMs: rapid.SampledFrom([]int{0, 100, 600}).Draw(t, "w5")}, {K: "shutdown", X: x, Y: y, WaitMs: 1800}}
	}
	return sc
}

func genC10(t *rapid.T) Scenario {
	if rapid.IntRange(0, 2).Draw(t, "focused") == 0 {
		return genC10Focused(t)
	}
	sc := Scenario{N: 3, ZeroHigher: rapid.Bool().Draw(t, "zeroHigher")}
	n := rapid.IntRange(5, 18).Draw(t, "nOps")
	for i := 0; i < n; i++ {
		x := rapid.IntRange(0, 2).Draw(t, "x")
		y := (x + 1 + rapid.IntRange(0, 1).Draw(t, "dy")) % 3
		k := rapid.SampledFrom([]string{"register", "register", "register", "appear", "appear", "appear", "unregister", "unregister", "cancel", "disconnect", "disappear", "shutdown", "wait"}).Draw(t, "op")
		if k == "shutdown" && rapid.IntRange(0, 2).Draw(t, "reallyShutdown") != 0 {
			k = "wait"
		}
		op := HubOp{K: k, X: x, Y: y, WaitMs: rapid.SampledFrom([]int{0, 0, 20, 150, 400, 700, 1100, 1600}).Draw(t, "wait"),
			Spell: rapid.SampledFrom([]int{0, 0, 0, 1, 2, 3}).Draw(t, "spell")}
		sc.Ops = append(sc.Ops, op)
	}
	// stories: short op sequences for one pair that put an unregister/cancel between a register and a later mDNS appearance or dial
	stories := [][]string{
		{"register", "unregister", "appear"},
		{"register", "cancel", "appear"},
		{"appear", "register", "unregister", "disappear", "appear"},
		{"register", "appear", "unregister", "wait", "wait"},
		{"register", "appear", "cancel", "wait"},
		// x asks y (y's user has not answered yet), x cancels, then y's user approves
		{"register", "appear", "wait", "cancel", "peerRegister", "wait"},
		{"appear", "register", "cancel", "wait", "peerRegister"},
		// the cancel is still being processed (slow application callback) when y's user approves
		{"register", "appear", "wait", "cancelConc", "peerRegister", "wait", "wait"},
	}
	sc.SlowAppMs = []int{rapid.SampledFrom([]int{0, 0, 400}).Draw(t, "slow0"), rapid.SampledFrom([]int{0, 0, 400}).Draw(t, "slow1"), 0}
	sc.AutoAccept = []bool{false, false, rapid.IntRange(0, 3).Draw(t, "auto2") == 0}
	for i, m := 0, rapid.IntRange(0, 2).Draw(t, "nStories"); i < m; i++ {
		x := rapid.IntRange(0, 2).Draw(t, "sx")
		y := (x + 1 + rapid.IntRange(0, 1).Draw(t, "sdy")) % 3
		peerKnocks := rapid.Bool().Draw(t, "peerKnocks")
		if peerKnocks {
			sc.Ops = append(sc.Ops, HubOp{K: "register", X: y, Y: x}, HubOp{K: "appear", X: y, Y: x})
		}
		for _, k := range rapid.SampledFrom(stories).Draw(t, "story") {
			if k == "cancelConc" {
				sc.Ops = append(sc.Ops, HubOp{K: "cancel", X: x, Y: y, Conc: true, WaitMs: rapid.SampledFrom([]int{20, 100}).Draw(t, "cwait"),
					Spell: rapid.SampledFrom([]int{0, 0, 1}).Draw(t, "cspell")})
				continue
			}
			if k == "peerRegister" {
				sc.Ops = append(sc.Ops, HubOp{K: "register", X: y, Y: x, WaitMs: rapid.SampledFrom([]int{0, 300, 1200}).Draw(t, "pwait")})
				continue
			}
			sc.Ops = append(sc.Ops, HubOp{K: k, X: x, Y: y, WaitMs: rapid.SampledFrom([]int{0, 50, 300, 900, 1500}).Draw(t, "swait"),
				Spell: rapid.SampledFrom([]int{0, 0, 1, 2, 3}).Draw(t, "sspell")})
		}
	}
	sc.Ops = append(sc.Ops, HubOp{K: "wait", WaitMs: 1200})
	return sc
}

// genC11Hub: like genC10, plus transport cuts, so that connections end by several causes
// (also after trust was withdrawn from a completed connection).
func genC11Hub(t *rapid.T) Scenario {
	sc := Scenario{N: 3, ZeroHigher: rapid.Bool().Draw(t, "zeroHigher")}
	// a connected core
	for _, p := range [][2]int{{0, 1}, {1, 0}, {1, 2}, {2, 1}} {
		if rapid.IntRange(0, 4).Draw(t, "core") != 0 {
			sc.Ops = append(sc.Ops, HubOp{K: "register", X: p[0], Y: p[1]}, HubOp{K: "appear", X: p[0], Y: p[1]})
		}
	}
	sc.Ops = append(sc.Ops, HubOp{K: "wait", WaitMs: rapid.SampledFrom([]int{200, 900, 1800}).Draw(t, "w0")})
	halfcuts := 0
	n := rapid.IntRange(2, 10).Draw(t, "nOps")
	for i := 0; i < n; i++ {
		x := rapid.IntRange(0, 2).Draw(t, "x")
		y := (x + 1 + rapid.IntRange(0, 1).Draw(t, "dy")) % 3
		k := rapid.SampledFrom([]string{"cut", "cut", "cut", "disconnect", "disconnect", "cancel", "unregister", "register", "disappear", "appear", "wait", "wait"}).Draw(t, "op")
		if k == "wait" && halfcuts == 0 && rapid.IntRange(0, 5).Draw(t, "half") == 0 {
			k = "halfcut" // at most one per scenario: the hub that keeps the stale connection only notices after the 60 s pong timeout
			halfcuts++
		}
		sc.Ops = append(sc.Ops, HubOp{K: k, X: x, Y: y, WaitMs: rapid.SampledFrom([]int{0, 0, 30, 250, 700, 1500}).Draw(t, "wait"),
			Conc: rapid.IntRange(0, 4).Draw(t, "conc") == 0})
	}
	if rapid.IntRange(0, 4).Draw(t, "cancelThenLoss") == 0 {
		// the user cancels the pairing of a completed connection (it stays, the trust goes), then the link fails
		x := rapid.IntRange(0, 1).Draw(t, "ctx")
		sc.Ops = append(sc.Ops, HubOp{K: "register", X: x, Y: x + 1}, HubOp{K: "register", X: x + 1, Y: x}, HubOp{K: "appear", X: x, Y: x + 1}, HubOp{K: "appear", X: x + 1, Y: x, WaitMs: 1500},
			HubOp{K: "cancel", X: x, Y: x + 1, WaitMs: rapid.SampledFrom([]int{100, 800}).Draw(t, "ctw")},
			HubOp{K: "cut", X: x, Y: x + 1, Conc: true}, HubOp{K: "cut", X: x + 1, Y: x, WaitMs: 1500})
	}
	if rapid.IntRange(0, 5).Draw(t, "deadLink") == 0 {
		// the connection between two hubs has silently died (black hole), one of them is started again
		// (same certificate) and dials: the stale connection has to make way for the new one
		x := rapid.IntRange(0, 1).Draw(t, "dlx")
		sc.Ops = append(sc.Ops, HubOp{K: "register", X: x, Y: x + 1}, HubOp{K: "register", X: x + 1, Y: x}, HubOp{K: "appear", X: x, Y: x + 1}, HubOp{K: "appear", X: x + 1, Y: x, WaitMs: 1500},
			HubOp{K: "freezeOld", X: x, Y: x + 1, WaitMs: rapid.SampledFrom([]int{0, 200}).Draw(t, "dlw")},
			HubOp{K: "restart", X: rapid.SampledFrom([]int{x, x + 1}).Draw(t, "dlr"), WaitMs: 0}, HubOp{K: "wait", WaitMs: 2500})
	}
	sc.Ops = append(sc.Ops, HubOp{K: "wait", WaitMs: 1000})
	sc.SlowLog = genSlowLog(t, sc.N)
	if rapid.IntRange(0, 3).Draw(t, "lateLoser") == 0 {
		// both hubs of a pair dial at the same moment (a double connection), and the logger is slow at the
		// points where the connection that is not kept is closed or where a connection completes: the end
		// of the replaced connection and the set-up of the kept one come in either order
		sc.Ops = nil
		for _, p := range [][2]int{{0, 1}, {1, 0}, {1, 2}, {2, 1}} {
			sc.Ops = append(sc.Ops, HubOp{K: "register", X: p[0], Y: p[1]}, HubOp{K: "appear", X: p[0], Y: p[1]})
		}
		sc.Ops = append(sc.Ops, HubOp{K: "wait", WaitMs: rapid.SampledFrom([]int{200, 900, 1800}).Draw(t, "llw0")})
		for i, n := 0, rapid.IntRange(0, 3).Draw(t, "llOps"); i < n; i++ {
			x := rapid.IntRange(0, 2).Draw(t, "llx")
			y := (x + 1 + rapid.IntRange(0, 1).Draw(t, "lldy")) % 3
			sc.Ops = append(sc.Ops, HubOp{K: rapid.SampledFrom([]string{"cut", "cancel", "unregister", "disconnect", "disappear", "wait"}).Draw(t, "llop"), X: x, Y: y,
				WaitMs: rapid.SampledFrom([]int{0, 30, 250, 700, 1500}).Draw(t, "llwait")})
		}
		sc.Ops = append(sc.Ops, HubOp{K: "wait", WaitMs: 1000})
		sc.SlowLog = nil
		for i, n := 0, rapid.IntRange(1, 2).Draw(t, "llRules"); i < n; i++ {
			sc.SlowLog = append(sc.SlowLog, LogRule{
				Match: rapid.SampledFrom([]string{"SHIP state changed to: 39", "SHIP state changed to: 38", "incoming connection request from", "closing existing double connection"}).Draw(t, "llPoint"),
				Ski:   rapid.IntRange(-1, sc.N-1).Draw(t, "llSki"), Ms: rapid.SampledFrom([]int{150, 400, 900}).Draw(t, "llMs")})
		}
	}
	return sc
}

const grace = 400 * time.Millisecond

func judgeC10(sc Scenario) (key, msg string, nontrivial bool) {
	r := Execute(sc)
	defer r.Close()
	if r.Herr != "" {
		return "harness", r.Herr, false
	}
	f := r.F
	// let pending delayed dials fire and everything settle
	f.Quiet(settleQuiet, 12*time.Second)
	g := grace + 4*r.Overshoot
	// a pairing that was pending when the user cancelled it never completes
	for _, o := range r.Ops {
		if o.Op.K == "cancel" && !o.Skipped && o.Conn != nil && (o.StateBefore == 11 || o.StateBefore == 8) {
			nontrivial = true
			if st, _ := o.Conn.ShipHandshakeState(); st == 38 {
				return "C10/completed-after-cancel", fmt.Sprintf("hub %d cancelled the pairing with hub %d at %v while the handshake was pending (state %d), but that connection completed later. Ops %s%s",
					o.Op.X, o.Op.Y, o.Start, o.StateBefore, opsBrief(r.Ops), f.Describe(10)), true
			}
		}
	}
	type interval struct{ from, to time.Duration } // registered during [from, to)
	end := time.Since(f.start) + time.Hour
	for x := 0; x < sc.N; x++ {
		if x < len(sc.AutoAccept) && sc.AutoAccept[x] {
			continue // a hub with auto accept on trusts on its own: the plain user-intent model does not apply
		}
		var shutdownAt time.Duration = -1
		for _, o := range r.Ops {
			if !o.Skipped && o.Op.K == "shutdown" && o.Op.X == x {
				shutdownAt = o.End
			}
		}
		for y := 0; y < sc.N; y++ {
			if x == y {
				continue
			}
			// the user's intent over time. "allowed" intervals: registered (from the start of a
			// register call until an unregister returned). CancelPairingWithSKI is specified for a
			// pending pairing only; what it means for an established or racing connection is left
			// open by the statement, so after a cancel of a registered SKI the intent is unknown
			// (still "allowed", nothing asserted) until the next register/unregister.
			var ivs []interval
			status := "unreg"
			for _, o := range r.Ops {
				if o.Skipped || o.Op.X != x || o.Op.Y != y {
					continue
				}
				switch o.Op.K {
				case "register":
					if status == "unreg" {
						ivs = append(ivs, interval{o.Start, end})
					}
					status = "reg"
				case "unregister":
					if status != "unreg" {
						ivs[len(ivs)-1].to = o.End
						nontrivial = true
					}
					status = "unreg"
				case "cancel":
					// a cancel revokes trust. If no connection to Y existed, or the request was
					// pending (waiting for this user), nothing can complete afterwards: as good as
					// an unregister. In every other state (handshake in progress or completed) the
					// statement does not say what a cancel means: intent unknown.
					switch {
					case o.StateBefore == -1 || o.StateBefore == 11:
						if status != "unreg" {
							ivs[len(ivs)-1].to = o.End
							nontrivial = true
						}
						status = "unreg"
					case status == "reg":
						status = "unknown"
						nontrivial = true
					}
				}
			}
			for _, at := range f.Proxies[[2]int{x, y}].Accepts() {
				ok := false
				for _, iv := range ivs {
					if at >= iv.from && at < iv.to+g {
						ok = true
					}
				}
				if !ok {
					return "C10/dial-to-unregistered", fmt.Sprintf("hub %d opened a connection to hub %d at %v although the user had not registered that SKI at that time (registered during %v, grace %v). Ops %+v%s",
						x, y, at, ivs, g, opsBrief(r.Ops), f.Describe(10)), nontrivial
				}
				if shutdownAt >= 0 && at > shutdownAt+g {
					return "C10/dial-after-shutdown", fmt.Sprintf("hub %d opened a connection to hub %d at %v, after Shutdown() had returned at %v. Ops %+v%s", x, y, at, shutdownAt, opsBrief(r.Ops), f.Describe(10)), true
				}
			}
			if shutdownAt >= 0 {
				nontrivial = true
			}
			// no device setup for Y on X while not registered (auto accept is off)
			for _, e := range f.Nodes[x].App.Events() {
				if e.Kind != "setup" || e.Ski != f.Nodes[y].SKI {
					continue
				}
				ok := false
				for _, iv := range ivs {
					if e.At >= iv.from && e.At < iv.to+g {
						ok = true
					}
				}
				if !ok {
					return "C10/setup-while-unregistered", fmt.Sprintf("hub %d set up the remote device of hub %d at %v although that SKI was not registered at that time (registered during %v). Ops %+v%s",
						x, y, e.At, ivs, opsBrief(r.Ops), f.Describe(10)), nontrivial
				}
			}
			// at the end: not registered => no completed connection registered
			if status == "unreg" {
				if f.Completed(x, y) && !f.Nodes[x].IsDown() {
					return "C10/connected-while-unregistered", fmt.Sprintf("hub %d still has a completed connection to hub %d although the SKI is not registered (any more). Ops %+v%s", x, y, opsBrief(r.Ops), f.Describe(10)), nontrivial
				}
			}
		}
	}
	return "", "", nontrivial
}

func opsBrief(ops []OpRec) string {
	s := ""
	for _, o := range ops {
		if o.Skipped {
			continue
		}
		s += fmt.Sprintf("[%dms %s %d->%d] ", o.Start.Milliseconds(), o.Op.K, o.Op.X, o.Op.Y)
	}
	return s
}

// ---- C11b: connection ends are accounted for consistently (hub level) -----------------------

func judgeC11b(sc Scenario) (key, msg string, nontrivial bool) {
	r := Execute(sc)
	defer r.Close()
	if r.Herr != "" {
		return "harness", r.Herr, false
	}
	f := r.F
	// a half cut leaves one hub with a connection it can only recognise as dead when its pong
	// wait (60 s) runs out: the two hubs legitimately disagree until then
	for _, o := range r.Ops {
		if (o.Op.K == "halfcut" || o.Op.K == "freezeOld") && !o.Skipped {
			if wait := o.End + 68*time.Second - time.Since(f.start); wait > 0 {
				time.Sleep(wait)
			}
		}
	}
	if !f.Quiet(settleQuiet+500*time.Millisecond, 25*time.Second) {
		return "inconclusive", "did not settle", false
	}
	for x := 0; x < sc.N; x++ {
		if f.Nodes[x].IsDown() {
			continue
		}
		for y := 0; y < sc.N; y++ {
			if x == y {
				continue
			}
			last := f.Nodes[x].App.LastOf(f.Nodes[y].SKI, "setup", "disconnected")
			comp := f.Completed(x, y)
			relays := len(f.Proxies[[2]int{x, y}].Accepts()) + len(f.Proxies[[2]int{y, x}].Accepts())
			if relays > 1 {
				nontrivial = true
			}
			if comp && last != "setup" {
				return "C11/registered-but-last-is-disconnect", fmt.Sprintf("hub %d has a completed registered connection to hub %d but the last notification for it is %q. Ops %s%s", x, y, last, opsBrief(r.Ops), f.Describe(12)), nontrivial
			}
			if !comp && last == "setup" {
				return "C11/setup-but-no-connection", fmt.Sprintf("the last notification of hub %d for hub %d is 'set up' but no completed connection is registered. Ops %s%s", x, y, opsBrief(r.Ops), f.Describe(12)), nontrivial
			}
			nd := 0
			for _, e := range f.Nodes[x].App.Events() {
				if e.Kind == "disconnected" && e.Ski == f.Nodes[y].SKI {
					nd++
				}
			}
			if nd > relays {
				return "C11/more-disconnects-than-connections", fmt.Sprintf("hub %d reported %d disconnects of hub %d but only %d connections ever existed between them%s", x, nd, y, relays, f.Describe(12)), nontrivial
			}
			if comp && !f.Nodes[y].IsDown() && !f.Completed(y, x) {
				return "C11/one-sided-connection", fmt.Sprintf("hub %d has a completed registered connection to hub %d, but hub %d has none to hub %d%s", x, y, y, x, f.Describe(12)), nontrivial
			}
		}
	}
	return "", "", nontrivial
}

// ---- runners ------------------------------------------------------------------------------------

func runHubProperty(t *testing.T, prop string, gen func(*rapid.T) Scenario, judge func(Scenario) (string, string, bool)) {
	st := core.Begin(t, prop, "hubnet")
	defer st.End()
	batch := core.EnvInt("VERIF_BATCH", 8)
	rapid.Check(t, func(rt *rapid.T) {
		scs := make([]Scenario, batch)
		for i := range scs {
			scs[i] = gen(rt)
		}
		type out struct {
			key, msg string
			nt       bool
		}
		outs := make([]out, batch)
		var wg sync.WaitGroup
		for i := range scs {
			wg.Add(1)
			go func(i int) {
				defer wg.Done()
				k, m, nt := judge(scs[i])
				outs[i] = out{k, m, nt}
			}(i)
		}
		wg.Wait()
		for i, o := range outs {
			if o.key == "inconclusive" {
				// once more, alone (the batch competes for the processors while it starts its hubs)
				k, m, nt := judge(scs[i])
				o = out{k, m, nt}
				outs[i] = o
			}
			if o.key == "inconclusive" {
				st.AddInconclusive()
				continue
			}
			kinds := map[string]bool{}
			for _, op := range scs[i].Ops {
				kinds[op.K] = true
			}
			var cls []string
			for k := range kinds {
				cls = append(cls, "op:"+k)
			}
			st.Case(scs[i], o.nt, cls...)
			if o.key != "" {
				// real time: the schedule of a failing scenario cannot be replayed, only its
				// script. A failure counts as a violation if it shows again in one of three
				// re-executions; otherwise it is recorded as unreproduced (no verdict).
				rep := 0
				for n := 0; n < 3; n++ {
					if k, _, _ := judge(scs[i]); k == o.key {
						rep++
					}
				}
				if rep == 0 {
					st.AddForeign("unreproduced:" + o.key)
					st.Note = "unreproduced failure: " + o.msg
					continue
				}
				msg := fmt.Sprintf("%s (reproduced in %d of 3 re-executions of the same script)", o.msg, rep)
				st.Fail(o.key, msg, scs[i])
				rt.Fatalf("%s: %s", o.key, msg)
			}
		}
	})
}

func TestC05(t *testing.T)    { runHubProperty(t, "C05", genC05, judgeC05) }
func TestC10(t *testing.T)    { runHubProperty(t, "C10", genC10, judgeC10) }
func TestC11Hub(t *testing.T) { runHubProperty(t, "C11", genC11Hub, judgeC11b) }

func replayScenario(raw json.RawMessage, judge func(Scenario) (string, string, bool)) (string, string) {
	var sc Scenario
	if err := json.Unmarshal(raw, &sc); err != nil {
		return "harness", err.Error()
	}
	for i := 0; i < 3; i++ {
		k, m, _ := judge(sc)
		if k != "" && k != "inconclusive" {
			return k, m
		}
	}
	return "", ""
}
