package hubnet

import (
	"crypto/tls"
	"encoding/json"
	"fmt"
	"sort"
	"strings"
	"sync"
	"testing"
	"time"

	"pgregory.net/rapid"

	"github.com/enbility/ship-go/cert"
	"github.com/enbility/ship-go/util"
	"verifharness/core"
)

// C15Script: hub state, operations on hub H addressing peer P, and the spelling of P's SKI.
type C15Script struct {
	State string   `json:"state"` // none | pending | completed
	Ops   []string `json:"ops"`   // register | unregister | disconnect | cancel | detail | lookup
	// Spelling: per character of the canonical SKI: bit0 = upper case, bit1 = dash before, bit2 = blank before
	Spelling []int `json:"spelling"`
}

func spell(ski string, sp []int) string {
	var b strings.Builder
	for i, c := range ski {
		m := 0
		if i < len(sp) {
			m = sp[i]
		}
		if m&2 != 0 {
			b.WriteByte('-')
		}
		if m&4 != 0 {
			b.WriteByte(' ')
		}
		if m&1 != 0 {
			b.WriteString(strings.ToUpper(string(c)))
		} else {
			b.WriteRune(c)
		}
	}
	return b.String()
}

type c15Point struct {
	Op           string
	HReg         bool // H has a registered connection to P
	HState       int
	PReg         bool // P has a registered connection to H
	PState       int
	DetailCanon  int
	DetailSpell  int
	Trusted      bool
	SameService  bool
	LastOnH      string // what H's application was told about P since the operation (disconnected / setup, in order of first occurrence)
	LastOnP      string
	NonCanonical string // a SKI string handed to H's application that is not canonical
	ShipID       string // SHIP ID stored for P, read through the canonical SKI
	Attempts     string // keys of H's dial bookkeeping (attempt counters / running flags) and of its service records
}

func (p c15Point) comparable() string {
	return fmt.Sprintf("Hreg=%v Hstate=%d Preg=%v Pstate=%d detail=%d/%d trusted=%v sameService=%v storedID=%s lastOnH=%s lastOnP=%s bookkeeping=%s",
		p.HReg, p.HState, p.PReg, p.PState, p.DetailCanon, p.DetailSpell, p.Trusted, p.SameService, p.ShipID, p.LastOnH, p.LastOnP, p.Attempts)
}

const settleQuiet = 1700 * time.Millisecond // > scaled dial back-off (1 s) + delayed notification (500 ms)

// runC15 executes the scenario with the given spelling function; returns one point per op (after settling).
func runC15(sc C15Script, spelled bool, certs [2]tls.Certificate) (pts []c15Point, inconclusive string, herr string) {
	f := NewFabric()
	defer f.Close()
	h, err := f.AddNode("H", &certs[0])
	if err != nil {
		return nil, "", err.Error()
	}
	p, err := f.AddNode("P", &certs[1])
	if err != nil {
		return nil, "", err.Error()
	}
	for _, n := range f.Nodes {
		if err := f.StartNode(n); err != nil {
			return nil, "", err.Error()
		}
	}
	if err := f.Connect(); err != nil {
		return nil, "", err.Error()
	}
	name := func(ski string) string {
		if spelled {
			return spell(ski, sc.Spelling)
		}
		return ski
	}
	switch sc.State {
	case "pending":
		p.Hub.RegisterRemoteSKI(h.SKI)
		f.SetSees(1, 0, true)
		if !WaitFor(8*time.Second, func() bool {
			c := h.Hub.VerifRegistry()[p.SKI]
			if c == nil {
				return false
			}
			st, _ := c.ShipHandshakeState()
			return st == 11
		}) {
			return nil, "pending state not reached", ""
		}
	case "attempted":
		// H has tried to reach P and failed (connection refused); P is not visible any more, so nothing
		// is going on, but H's dial bookkeeping for P exists
		f.Proxies[[2]int{0, 1}].SetRefuse(true)
		h.Hub.RegisterRemoteSKI(p.SKI)
		f.SetSees(0, 1, true)
		if !WaitFor(8*time.Second, func() bool { return len(f.Proxies[[2]int{0, 1}].Accepts()) > 0 }) {
			return nil, "no dial attempt seen", ""
		}
		f.SetSees(0, 1, false)
		time.Sleep(50 * time.Millisecond)
		f.Proxies[[2]int{0, 1}].SetRefuse(false)
	case "completed":
		h.Hub.RegisterRemoteSKI(p.SKI)
		p.Hub.RegisterRemoteSKI(h.SKI)
		f.SetSees(0, 1, true)
		f.SetSees(1, 0, true)
		if !WaitFor(10*time.Second, func() bool { return f.Completed(0, 1) && f.Completed(1, 0) }) {
			return nil, "completed state not reached", ""
		}
	}
	if !f.Quiet(settleQuiet, 15*time.Second) {
		return nil, "initial state did not settle", ""
	}
	since := func(a *App, ski string, from int64) string {
		var seen []string
		for _, e := range a.Events() {
			if e.Seq > from && e.Ski == ski && (e.Kind == "setup" || e.Kind == "disconnected") {
				dup := false
				for _, s := range seen {
					if s == e.Kind {
						dup = true
					}
				}
				if !dup {
					seen = append(seen, e.Kind)
				}
			}
		}
		return strings.Join(seen, "+")
	}
	for _, op := range sc.Ops {
		pt := c15Point{Op: op}
		mark := f.seq.Load()
		switch op {
		case "register":
			h.Hub.RegisterRemoteSKI(name(p.SKI))
		case "unregister":
			h.Hub.UnregisterRemoteSKI(name(p.SKI))
		case "disconnect":
			h.Hub.DisconnectSKI(name(p.SKI), "test")
		case "cancel":
			h.Hub.CancelPairingWithSKI(name(p.SKI))
		case "detail":
			_ = h.Hub.PairingDetailForSki(name(p.SKI))
		case "lookup":
			_ = h.Hub.ServiceForSKI(name(p.SKI))
		case "setid":
			// the application restores persisted details through the service record, as the API documents
			svc := h.Hub.ServiceForSKI(name(p.SKI))
			svc.SetShipID("persisted-id")
			svc.SetIPv4("127.0.0.1")
		}
		time.Sleep(100 * time.Millisecond)
		if !f.Quiet(settleQuiet, 20*time.Second) {
			return pts, "did not settle after " + op, ""
		}
		// the snapshot must be stable: a peer that keeps knocking cycles through close / redial / pending
		stable := func() string {
			a, b := -1, -1
			if c := h.Hub.VerifRegistry()[p.SKI]; c != nil {
				st, _ := c.ShipHandshakeState()
				a = int(st)
			}
			if c := p.Hub.VerifRegistry()[h.SKI]; c != nil {
				st, _ := c.ShipHandshakeState()
				b = int(st)
			}
			return fmt.Sprint(a, b)
		}
		for tries := 0; tries < 12; tries++ {
			s1 := stable()
			time.Sleep(700 * time.Millisecond)
			if s1 == stable() && f.Quiet(settleQuiet, 3*time.Second) {
				break
			}
			if tries == 11 {
				return pts, "state keeps changing after " + op, ""
			}
		}
		pt.HState, pt.PState = -1, -1
		if c := h.Hub.VerifRegistry()[p.SKI]; c != nil {
			pt.HReg = true
			st, _ := c.ShipHandshakeState()
			pt.HState = int(st)
		}
		if c := p.Hub.VerifRegistry()[h.SKI]; c != nil {
			pt.PReg = true
			st, _ := c.ShipHandshakeState()
			pt.PState = int(st)
		}
		pt.DetailCanon = int(h.Hub.PairingDetailForSki(p.SKI).State())
		pt.DetailSpell = int(h.Hub.PairingDetailForSki(name(p.SKI)).State())
		pt.Trusted = h.Hub.ServiceForSKI(p.SKI).Trusted()
		pt.SameService = h.Hub.ServiceForSKI(p.SKI) == h.Hub.ServiceForSKI(name(p.SKI))
		pt.ShipID = h.Hub.ServiceForSKI(p.SKI).ShipID() + "/" + h.Hub.ServiceForSKI(p.SKI).IPv4()
		counters, running := h.Hub.VerifAttemptState()
		services := h.Hub.VerifServiceKeys()
		sort.Strings(counters)
		sort.Strings(running)
		sort.Strings(services)
		// the twin runs use the same certificates, so the keys are comparable as they are
		pt.Attempts = fmt.Sprintf("services%v", services)
		if sc.State != "completed" {
			// with a completed connection both hubs redial after every loss and it is a matter of timing
			// which of them gets through (and thereby whose bookkeeping survives); in the other states
			// only the operations under test touch the bookkeeping
			pt.Attempts += fmt.Sprintf(" counters%v running%v", counters, running)
		}
		pt.LastOnH = since(h.App, p.SKI, mark)
		pt.LastOnP = since(p.App, h.SKI, mark)
		for _, e := range h.App.Events() {
			if e.Ski != "" && e.Ski != util.NormalizeSKI(e.Ski) {
				pt.NonCanonical = e.Kind + ":" + e.Ski
			}
		}
		pts = append(pts, pt)
	}
	return pts, "", ""
}

func judgeC15(sc C15Script) (key, msg string, nontrivial bool) {
	var a, b []c15Point
	var ia, ib, ha, hb string
	// both runs use the same two certificates (same SKI order, same double connection rule)
	var certs [2]tls.Certificate
	for i := range certs {
		c, err := cert.CreateCertificate("unit", "org", "DE", fmt.Sprintf("n%d", i))
		if err != nil {
			return "harness", err.Error(), false
		}
		certs[i] = c
	}
	var wg sync.WaitGroup
	wg.Add(2)
	go func() { defer wg.Done(); a, ia, ha = runC15(sc, false, certs) }()
	go func() { defer wg.Done(); b, ib, hb = runC15(sc, true, certs) }()
	wg.Wait()
	if ha != "" || hb != "" {
		return "harness", ha + hb, false
	}
	if ia != "" || ib != "" {
		return "inconclusive", ia + " / " + ib, false
	}
	sp := spell("0123456789abcdef0123456789abcdef01234567", sc.Spelling)
	for i := range a {
		if a[i].HReg || a[i].PReg || (i > 0 && (a[i-1].HReg)) || sc.State == "attempted" {
			nontrivial = true
		}
		if a[i].comparable() != b[i].comparable() {
			return "C15/" + sc.Ops[i] + "-depends-on-spelling", fmt.Sprintf("state %s, ops %v, op #%d (%s) with the SKI spelled like %q: canonical run {%s}, re-formatted run {%s}",
				sc.State, sc.Ops, i, sc.Ops[i], sp, a[i].comparable(), b[i].comparable()), nontrivial
		}
		if b[i].NonCanonical != "" {
			return "C15/non-canonical-ski-to-application", fmt.Sprintf("the application received a non canonical SKI: %s", b[i].NonCanonical), nontrivial
		}
	}
	return "", "", nontrivial
}

func genC15(t *rapid.T) C15Script {
	sc := C15Script{State: rapid.SampledFrom([]string{"none", "none", "pending", "completed", "completed", "attempted"}).Draw(t, "state")}
	sc.Ops = rapid.SliceOfN(rapid.SampledFrom([]string{"register", "unregister", "disconnect", "cancel", "detail", "lookup", "setid", "setid", "unregister", "disconnect", "cancel"}), 1, 3).Draw(t, "ops")
	sc.Spelling = make([]int, 40)
	kind := rapid.IntRange(0, 3).Draw(t, "spellKind")
	for i := range sc.Spelling {
		switch kind {
		case 0: // upper case only
			sc.Spelling[i] = 1
		case 1: // dashes every two characters
			if i > 0 && i%2 == 0 {
				sc.Spelling[i] = 2
			}
		case 2: // blanks every four
			if i > 0 && i%4 == 0 {
				sc.Spelling[i] = 4
			}
		default:
			// bit 1 and bit 2 together: a dash and a blank next to each other
			sc.Spelling[i] = rapid.SampledFrom([]int{0, 0, 1, 1, 2, 3, 4, 5, 6, 7}).Draw(t, "sp")
		}
	}
	return sc
}

// TestC15 — hub operations are invariant under SKI formatting (differential twin runs on real hubs).
func TestC15(t *testing.T) {
	st := core.Begin(t, "C15", "hubnet")
	defer st.End()
	batch := core.EnvInt("VERIF_BATCH", 8)
	rapid.Check(t, func(rt *rapid.T) {
		// a batch of scenarios runs concurrently (they mostly sleep)
		scs := make([]C15Script, batch)
		for i := range scs {
			scs[i] = genC15(rt)
		}
		type out struct {
			key, msg string
			nt       bool
		}
		outs := make([]out, batch)
		var wg sync.WaitGroup
		for i := range scs {
			wg.Add(1)
			go func(i int) {
				defer wg.Done()
				k, m, nt := judgeC15(scs[i])
				outs[i] = out{k, m, nt}
			}(i)
		}
		wg.Wait()
		for i, o := range outs {
			if o.key == "inconclusive" {
				// once more, alone (the batch competes for the processors while it starts its hubs)
				k, m, nt := judgeC15(scs[i])
				o = out{k, m, nt}
				outs[i] = o
			}
			if o.key == "inconclusive" {
				st.AddInconclusive()
				continue
			}
			st.Case(scs[i], o.nt, "state:"+scs[i].State)
			if o.key != "" {
				// real time: re-execute to see whether it reproduces
				rep := 0
				for n := 0; n < 3; n++ {
					if k, _, _ := judgeC15(scs[i]); k == o.key {
						rep++
					}
				}
				if rep == 0 {
					// real time: a difference that does not show again is a scheduling coincidence, no verdict
					st.AddForeign("unreproduced:" + o.key)
					st.Note = "unreproduced difference: " + o.msg
					continue
				}
				msg := fmt.Sprintf("%s (reproduced %d of 3 re-executions)", o.msg, rep)
				st.Fail(o.key, msg, scs[i])
				rt.Fatalf("%s: %s", o.key, msg)
			}
		}
	})
}

func replayC15(raw json.RawMessage) (string, string) {
	var sc C15Script
	if err := json.Unmarshal(raw, &sc); err != nil {
		return "harness", err.Error()
	}
	k, m, _ := judgeC15(sc)
	if k == "inconclusive" {
		return "", ""
	}
	return k, m
}
