package hubnet

import (
	"fmt"
	"strings"
	"testing"
	"time"

	"pgregory.net/rapid"
)

// ---- C01 at hub level: the trust gate with a real peer that keeps knocking ------------------

// genC01Hub: hub 1 has registered hub 0 and sees it, so it keeps dialling hub 0.
// Hub 0 is the hub under test: its user registers / cancels / unregisters hub 1 at
// drawn moments; auto accept is off. Hub 0 sees hub 1 only in some scenarios.
func genC01Hub(t *rapid.T) Scenario {
	sc := Scenario{N: 2, ZeroHigher: rapid.Bool().Draw(t, "zeroHigher")}
	// the knocking peer may run with auto accept on (announces register=true)
	sc.AutoAccept = []bool{false, rapid.Bool().Draw(t, "peerAutoAccept")}
	w := func() int { return rapid.SampledFrom([]int{0, 0, 30, 200, 600, 1200, 1800}).Draw(t, "wait") }
	knock := []HubOp{{K: "register", X: 1, Y: 0}, {K: "appear", X: 1, Y: 0}}
	knockFirst := rapid.Bool().Draw(t, "knockFirst")
	if knockFirst {
		sc.Ops = append(sc.Ops, knock[0], HubOp{K: "appear", X: 1, Y: 0, WaitMs: w()})
	}
	if rapid.IntRange(0, 1).Draw(t, "zeroSeesOne") == 0 {
		// sometimes over a slow link, so that the user's next operation lands while hub 0's dial is on its way
		if ms := rapid.SampledFrom([]int{0, 0, 300, 800}).Draw(t, "slowLink"); ms > 0 {
			sc.Ops = append(sc.Ops, HubOp{K: "slow", X: 0, Y: 1, Ms: ms})
		}
		sc.Ops = append(sc.Ops, HubOp{K: "appear", X: 0, Y: 1})
	}
	// what the user of hub 0 does: templates that end with trust revoked, or a random sequence
	templates := [][]string{
		{"register", "unregister"}, {"register", "wait", "unregister"}, {"register", "cancel"},
		{"register", "unregister", "register", "unregister"}, {"cancel"}, {"unregister"}, nil,
	}
	user := rapid.SampledFrom(templates).Draw(t, "userTemplate")
	if user == nil {
		n := rapid.IntRange(1, 6).Draw(t, "nUserOps")
		for i := 0; i < n; i++ {
			user = append(user, rapid.SampledFrom([]string{"register", "cancel", "unregister", "cancel", "register", "wait"}).Draw(t, "userOp"))
		}
	}
	for _, k := range user {
		sc.Ops = append(sc.Ops, HubOp{K: k, X: 0, Y: 1, WaitMs: w(), Spell: rapid.SampledFrom([]int{0, 0, 0, 1, 2, 3}).Draw(t, "spell")})
	}
	if !knockFirst {
		sc.Ops = append(sc.Ops, knock[0], HubOp{K: "appear", X: 1, Y: 0, WaitMs: w()})
	}
	sc.Ops = append(sc.Ops, HubOp{K: "wait", WaitMs: 1500})
	return sc
}

func judgeC01Hub(sc Scenario) (string, string, bool) {
	k, m, nt := judgeC10(sc)
	return strings.Replace(k, "C10/", "C01/hub-", 1), m, nt
}

func TestC01Hub(t *testing.T) { runHubProperty(t, "C01", genC01Hub, judgeC01Hub) }

// ---- C09 at hub level: the stored SHIP ID reaches every new connection ---------------------------

// C09 scenario encoded in a Scenario: Ops[0].K = stored id class (unknown|correct|wrong),
// Ops[1].K = who dials (hub0|hub1). Hub 0 is under test, hub 1 presents "shipid-N1".
func genC09Hub(t *rapid.T) Scenario {
	return Scenario{N: 2, ZeroHigher: rapid.Bool().Draw(t, "zeroHigher"), Ops: []HubOp{
		{K: rapid.SampledFrom([]string{"unknown", "unknown", "unknown", "correct", "wrong", "wrong"}).Draw(t, "stored")},
		{K: rapid.SampledFrom([]string{"hub0-dials", "hub1-dials"}).Draw(t, "direction")},
		{K: "wait", WaitMs: rapid.SampledFrom([]int{0, 50, 400}).Draw(t, "wait")},
		// Ops[3]: the application of hub 0 needs WaitMs for every pairing notification; K = "reconnect":
		// the connection is cut once it has completed, so that the next one is set up while the
		// notifications of the first are still being delivered
		{K: rapid.SampledFrom([]string{"once", "reconnect", "reconnect"}).Draw(t, "again"), WaitMs: rapid.SampledFrom([]int{0, 300, 300}).Draw(t, "slowApp")},
		// Ops[4]: the spelling with which the application addresses the service record when it restores the SHIP ID
		{K: "spell", Spell: rapid.SampledFrom([]int{0, 0, 1, 2, 3}).Draw(t, "idSpell")},
	}}
}

func judgeC09Hub(sc Scenario) (key, msg string, nontrivial bool) {
	f := NewFabric()
	defer f.Close()
	for i := 0; i < 2; i++ {
		if _, err := f.AddNode(fmt.Sprintf("N%d", i), nil); err != nil {
			return "harness", err.Error(), false
		}
	}
	for _, n := range f.Nodes {
		if err := f.StartNode(n); err != nil {
			return "harness", err.Error(), false
		}
	}
	if err := f.Connect(); err != nil {
		return "harness", err.Error(), false
	}
	h, p := f.Nodes[0], f.Nodes[1]
	stored := map[string]string{"unknown": "", "correct": "shipid-N1", "wrong": "shipid-N1-other"}[sc.Ops[0].K]
	again, slowApp, idSpell := false, 0, 0
	if len(sc.Ops) >= 5 {
		again, slowApp, idSpell = sc.Ops[3].K == "reconnect", sc.Ops[3].WaitMs, sc.Ops[4].Spell
	}
	h.App.SlowPairing.Store(int64(slowApp))
	// the application restores the persisted SHIP ID before pairing, as the API documents
	// (it may write the SKI the way it is printed on the device)
	h.Hub.ServiceForSKI(SpellSKI(p.SKI, idSpell)).SetShipID(stored)
	h.Hub.RegisterRemoteSKI(p.SKI)
	p.Hub.RegisterRemoteSKI(h.SKI)
	time.Sleep(time.Duration(sc.Ops[2].WaitMs) * time.Millisecond)
	if sc.Ops[1].K == "hub0-dials" {
		f.SetSees(0, 1, true)
	} else {
		f.SetSees(1, 0, true)
	}
	done := WaitFor(8*time.Second, func() bool { return f.Completed(0, 1) && f.Completed(1, 0) })
	if done && again && sc.Ops[0].K != "wrong" {
		// lose the connection; both hubs see each other now, one of them redials
		f.SetSees(0, 1, true)
		f.SetSees(1, 0, true)
		time.Sleep(150 * time.Millisecond)
		f.Proxies[[2]int{0, 1}].Cut()
		f.Proxies[[2]int{1, 0}].Cut()
		time.Sleep(300 * time.Millisecond)
		done = WaitFor(10*time.Second, func() bool { return f.Completed(0, 1) && f.Completed(1, 0) })
	}
	f.Quiet(settleQuiet+time.Duration(slowApp)*time.Millisecond, 12*time.Second)
	evs := h.App.Events()
	setups, reports := 0, []string{}
	firstSetup, firstReport := int64(-1), int64(-1)
	var setupSeq, reportSeq []int64
	for _, e := range evs {
		if e.Ski != p.SKI {
			continue
		}
		if e.Kind == "setup" {
			setups++
			setupSeq = append(setupSeq, e.Seq)
			if firstSetup < 0 {
				firstSetup = e.Seq
			}
		}
		if e.Kind == "shipid" {
			reports = append(reports, e.Data)
			reportSeq = append(reportSeq, e.Seq)
			if firstReport < 0 {
				firstReport = e.Seq
			}
		}
	}
	// with an unknown SHIP ID every connection reports the ID before it sets the device up
	pairwise := true
	for i := range setupSeq {
		if i >= len(reportSeq) || reportSeq[i] > setupSeq[i] {
			pairwise = false
		}
	}
	what := fmt.Sprintf("stored SHIP ID %q (restored through the spelling %q), peer presents %q, %s, reconnect %v, slow application %d ms%s", stored, SpellSKI(p.SKI, idSpell), "shipid-N1", sc.Ops[1].K, again, slowApp, f.Describe(10))
	switch sc.Ops[0].K {
	case "wrong":
		if setups > 0 || f.Completed(0, 1) {
			return "C09/hub-setup-despite-mismatch", "the hub set up / completed a connection although the presented SHIP ID differs from the stored one: " + what, true
		}
	case "correct":
		if !done && !f.Quiet(5*time.Second, 6*time.Second) {
			return "inconclusive", "not converged", true
		}
		if !f.Completed(0, 1) {
			return "C09/hub-not-completed-on-match", "matching SHIP ID but no completed connection: " + what, true
		}
		if len(reports) > 0 {
			return "C09/hub-report-of-known-id", "a known SHIP ID was reported again: " + what, true
		}
	case "unknown":
		if !done && !f.Quiet(5*time.Second, 6*time.Second) {
			return "inconclusive", "not converged", true
		}
		if !f.Completed(0, 1) {
			return "C09/hub-not-completed", "no completed connection: " + what, true
		}
		if len(reports) != setups || setups == 0 || reports[0] != "shipid-N1" || firstReport > firstSetup || !pairwise {
			return "C09/hub-report", fmt.Sprintf("%d SHIP ID reports %v for %d device setups (first report #%d, first setup #%d): %s", len(reports), reports, setups, firstReport, firstSetup, what), true
		}
	}
	return "", "", true
}

func TestC09Hub(t *testing.T) { runHubProperty(t, "C09", genC09Hub, judgeC09Hub) }
