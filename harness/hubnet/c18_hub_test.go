package hubnet

import (
	"fmt"
	"testing"
	"time"

	"pgregory.net/rapid"

	"verifharness/core"
)

// C18 at hub level (C18b of the plan): real connections produce the state changes. Once every
// attempt has run to a stable point, the last pairing-state notification an application got
// for a SKI must show what its hub answers when asked (PairingDetailForSki).
//
// The generator concentrates on what the bubble run (TestC18, the harness plays the
// connections) cannot produce: two connections for one SKI living at the same time (double
// connection: the loser's end is reported while the winner progresses), reconnects after cuts,
// pending requests answered late, cancels and unregisters while a peer keeps knocking.
func genC18Hub(t *rapid.T) Scenario {
	fam := rapid.IntRange(0, 5).Draw(t, "family")
	if v := core.EnvInt("VERIF_C18_FAMILY", -1); v >= 0 {
		fam = v // development aid: one scenario family only
	}
	switch fam {
	case 0:
		sc := genC05(t)
		for i := range sc.Ops {
			if sc.Ops[i].K == "restart" { // a fresh hub object has a fresh state; the old notifications belong to the old one
				sc.Ops[i].K = "cut"
			}
		}
		return sc
	case 1:
		sc := genC10(t)
		for i := range sc.Ops {
			if sc.Ops[i].K == "shutdown" {
				sc.Ops[i].K = "wait"
			}
		}
		return sc
	}
	if fam == 4 {
		// a completed connection, then the user (or the peer) ends it: removal, disconnect or cancel by
		// either side at a settled moment - the last notification must follow the connection's end
		sc := Scenario{N: 2, ZeroHigher: rapid.Bool().Draw(t, "zeroHigher")}
		sc.Ops = []HubOp{{K: "register", X: 0, Y: 1}, {K: "register", X: 1, Y: 0}, {K: "appear", X: 0, Y: 1}, {K: "appear", X: 1, Y: 0,
			WaitMs: rapid.SampledFrom([]int{1500, 2200}).Draw(t, "settle")}}
		for i, n := 0, rapid.IntRange(1, 3).Draw(t, "nEnd"); i < n; i++ {
			x := rapid.IntRange(0, 1).Draw(t, "ex")
			sc.Ops = append(sc.Ops, HubOp{K: rapid.SampledFrom([]string{"unregister", "unregister", "disconnect", "cancel", "register", "cut"}).Draw(t, "endOp"), X: x, Y: 1 - x,
				WaitMs: rapid.SampledFrom([]int{0, 300, 1500, 2500}).Draw(t, "ew"), Spell: rapid.SampledFrom([]int{0, 0, 1, 3}).Draw(t, "espell")})
		}
		sc.Ops = append(sc.Ops, HubOp{K: "wait", WaitMs: 800})
		return sc
	}
	if fam == 3 {
		// a double connection whose losing connection ends late: the hub with the higher SKI (0) dials
		// over a slow link, so its connection C2 arrives when the connection C1 dialled by hub 1 has
		// long completed; both hubs keep C2. With a logger that is slow for certain lines hub 1 is
		// late in noticing C2 (it does not close C1 itself in time) and late in recording the end of
		// C1, so that C1's last state change is reported after C2 has completed.
		ms := func(label string, v ...int) int { return rapid.SampledFrom(v).Draw(t, label) }
		sc := Scenario{N: 2, ZeroHigher: true}
		sc.SlowLog = []LogRule{
			{Match: "incoming connection request from", Ski: 0, Ms: ms("lateAccept", 0, 100, 250)},
			{Match: "SHIP state changed to: 39", Ski: rapid.IntRange(0, 1).Draw(t, "errAt"), Ms: ms("lateError", 0, 300, 700, 1200)},
		}
		if rapid.Bool().Draw(t, "lateClose") {
			sc.SlowLog = append(sc.SlowLog, LogRule{Match: "closing existing double connection", Ski: -1, Ms: ms("lateCloseMs", 50, 200)})
		}
		sc.Ops = []HubOp{{K: "slow", X: 0, Y: 1, Ms: ms("slowLink", 300, 600)},
			{K: "register", X: 0, Y: 1, Conc: true}, {K: "register", X: 1, Y: 0, Conc: true},
			{K: "appear", X: 0, Y: 1, Conc: true}, {K: "appear", X: 1, Y: 0, Conc: true, WaitMs: 2500},
			{K: "slow", X: 0, Y: 1, Ms: 0}}
		if rapid.Bool().Draw(t, "again") {
			sc.Ops = append(sc.Ops, HubOp{K: "slow", X: 0, Y: 1, Ms: ms("slowLink2", 300, 600)}, HubOp{K: "cut", X: 0, Y: 1, Conc: true}, HubOp{K: "cut", X: 1, Y: 0, WaitMs: 2500})
		}
		sc.Ops = append(sc.Ops, HubOp{K: "wait", WaitMs: 500})
		return sc
	}
	// double connections on purpose: both register and see each other at once, several times over
	sc := Scenario{N: 2, ZeroHigher: rapid.Bool().Draw(t, "zeroHigher")}
	rounds := rapid.IntRange(1, 3).Draw(t, "rounds")
	sc.Ops = append(sc.Ops, HubOp{K: "register", X: 0, Y: 1, Conc: true}, HubOp{K: "register", X: 1, Y: 0, Conc: true},
		HubOp{K: "appear", X: 0, Y: 1, Conc: true}, HubOp{K: "appear", X: 1, Y: 0, Conc: true, WaitMs: rapid.SampledFrom([]int{300, 900, 1600}).Draw(t, "w0")})
	for i := 0; i < rounds; i++ {
		// both lose the connection at the same moment and redial within the scaled back-off
		sc.Ops = append(sc.Ops, HubOp{K: "cut", X: 0, Y: 1, Conc: true}, HubOp{K: "cut", X: 1, Y: 0, Conc: true,
			WaitMs: rapid.SampledFrom([]int{200, 700, 1300, 2000}).Draw(t, "wr")})
		if rapid.IntRange(0, 3).Draw(t, "reann") == 0 {
			x := rapid.IntRange(0, 1).Draw(t, "rx")
			sc.Ops = append(sc.Ops, HubOp{K: "disappear", X: x, Y: 1 - x, WaitMs: rapid.SampledFrom([]int{0, 100}).Draw(t, "wd")},
				HubOp{K: "appear", X: x, Y: 1 - x, WaitMs: rapid.SampledFrom([]int{0, 400}).Draw(t, "wa")})
		}
	}
	sc.Ops = append(sc.Ops, HubOp{K: "wait", WaitMs: 800})
	return sc
}

// lastPairing returns the state of the last pairing notification x's application got for ski,
// the number of such notifications and the number of distinct states among them.
func lastPairing(n *Node, ski string) (last, count, distinct int) {
	seen := map[int]bool{}
	last = -1
	for _, e := range n.App.Events() {
		if e.Kind == "pairing" && e.Ski == ski {
			last = e.State
			count++
			seen[e.State] = true
		}
	}
	return last, count, len(seen)
}

func judgeC18Hub(sc Scenario) (key, msg string, nontrivial bool) {
	r := Execute(sc)
	defer r.Close()
	if r.Herr != "" {
		return "harness", r.Herr, false
	}
	f := r.F
	// stable point: no callback and no TCP accept for longer than the scaled back-off plus the
	// 500 ms by which the hub delays a notification
	if !f.Quiet(settleQuiet+700*time.Millisecond, 30*time.Second) {
		return "inconclusive", "did not settle", false
	}
	type snap struct{ state, last, count int }
	take := func() map[[2]int]snap {
		m := map[[2]int]snap{}
		for x := 0; x < sc.N; x++ {
			if f.Nodes[x].IsDown() {
				continue
			}
			for y := 0; y < sc.N; y++ {
				if x == y {
					continue
				}
				st := int(f.Nodes[x].Hub.PairingDetailForSki(f.Nodes[y].SKI).State())
				l, c, _ := lastPairing(f.Nodes[x], f.Nodes[y].SKI)
				m[[2]int{x, y}] = snap{st, l, c}
			}
		}
		return m
	}
	a := take()
	time.Sleep(700 * time.Millisecond)
	b := take()
	for k, v := range a {
		if b[k] != v {
			return "inconclusive", "state still changing", false
		}
	}
	for k, v := range b {
		x, y := k[0], k[1]
		_, _, distinct := lastPairing(f.Nodes[x], f.Nodes[y].SKI)
		relays := len(f.Proxies[[2]int{x, y}].Accepts()) + len(f.Proxies[[2]int{y, x}].Accepts())
		if distinct >= 3 && relays >= 2 {
			nontrivial = true
		}
		if v.count == 0 {
			// the application was never told anything: the hub must not report a state either
			if v.state != 0 {
				return "C18/hub-state-never-notified", fmt.Sprintf("hub %d reports pairing state %d for hub %d but its application never received a pairing notification for that SKI. Ops %s%s",
					x, v.state, y, opsBrief(r.Ops), f.Describe(14)), nontrivial
			}
			continue
		}
		if v.last != v.state {
			return "C18/hub-last-notification-stale", fmt.Sprintf("settled: hub %d reports pairing state %d for hub %d, the last of the %d notifications its application received shows %d. Ops %s%s",
				x, v.state, y, v.count, v.last, opsBrief(r.Ops), f.Describe(16)), nontrivial
		}
	}
	return "", "", nontrivial
}

func TestC18Hub(t *testing.T) { runHubProperty(t, "C18", genC18Hub, judgeC18Hub) }
