// Package hubsim runs a real hub.Hub inside a synctest bubble (no sockets):
// the harness plays the role of the SHIP connections and drives the hub's
// exported entry points on the virtual clock (C18).
package hubsim

import (
	"crypto/tls"
	"encoding/json"
	"errors"
	"fmt"
	"runtime"
	"sync"
	"testing"
	"testing/synctest"
	"time"

	"pgregory.net/rapid"

	"github.com/enbility/ship-go/api"
	"github.com/enbility/ship-go/hub"
	"github.com/enbility/ship-go/mdns"
	"github.com/enbility/ship-go/model"
	"verifharness/core"
	"verifharness/mdnssim"
)

type mdnsWrap struct {
	*mdns.MdnsManager
	prov *mdnssim.FakeProvider
}

func (m *mdnsWrap) Start(cb api.MdnsReportInterface) error {
	return m.MdnsManager.VerifStartWithProvider(m.prov, cb)
}

type note struct {
	Ski   string
	State int
	At    time.Duration
}

type reader struct {
	mu    sync.Mutex
	start time.Time
	Notes []note
	slow  time.Duration // the application needs this long (virtual) to process a notification
}

func (r *reader) RemoteSKIConnected(string)    {}
func (r *reader) RemoteSKIDisconnected(string) {}
func (r *reader) SetupRemoteDevice(string, api.ShipConnectionDataWriterInterface) api.ShipConnectionDataReaderInterface {
	return nil
}
func (r *reader) VisibleRemoteServicesUpdated([]api.RemoteService) {}
func (r *reader) ServiceShipIDUpdate(string, string)               {}
func (r *reader) ServicePairingDetailUpdate(ski string, d *api.ConnectionStateDetail) {
	st := int(d.State()) // what a UI would display when it is told
	r.mu.Lock()
	r.Notes = append(r.Notes, note{ski, st, time.Since(r.start)})
	r.mu.Unlock()
	if r.slow > 0 {
		time.Sleep(r.slow) // state changes arrive while the application is inside the callback
	}
}
func (r *reader) AllowWaitingForTrust(string) bool { return true }

// C18Step is one call into the hub.
type C18Step struct {
	Ski   int    `json:"ski"`
	Op    string `json:"op"`              // state | register | cancel | unregister
	State uint   `json:"state,omitempty"` // op == state: the SHIP state reported by the connection
	Err   bool   `json:"err,omitempty"`
	Gap   int64  `json:"gap"` // virtual ns before the next step
}

type C18Script struct {
	Steps  []C18Step `json:"steps"`
	Procs  int       `json:"procs"`
	SlowMs int       `json:"slowMs"`
}

type c18Result struct {
	Hub       map[int][]int // the hub's own sequence of states per SKI (read back after every call)
	Delivered map[int][]int
	Final     map[int]int
	Herr      string
}

func skiOf(i int) string { return fmt.Sprintf("%040d", i+1) }

func runC18(sc C18Script) *c18Result {
	res := &c18Result{Hub: map[int][]int{}, Delivered: map[int][]int{}, Final: map[int]int{}}
	rd := &reader{start: time.Now(), slow: time.Duration(sc.SlowMs) * time.Millisecond}
	mgr := mdns.NewMDNS("ffffffffffffffffffffffffffffffffffffffff", "b", "m", "t", "s", nil, "id", "svc", 4711, nil, mdns.MdnsProviderSelectionAll)
	h := hub.NewHub(rd, &mdnsWrap{mgr, &mdnssim.FakeProvider{}}, -1, tls.Certificate{}, api.NewServiceDetails("ffffffffffffffffffffffffffffffffffffffff"))
	h.Start() // the listener fails at once (port -1): no socket, the bubble stays closed
	synctest.Wait()
	for _, s := range sc.Steps {
		ski := skiOf(s.Ski)
		switch s.Op {
		case "state":
			var err error
			if s.Err {
				err = errors.New("handshake error")
			}
			h.HandleShipHandshakeStateUpdate(ski, model.ShipState{State: model.ShipMessageExchangeState(s.State), Error: err})
		case "register":
			h.RegisterRemoteSKI(ski)
		case "cancel":
			h.CancelPairingWithSKI(ski)
		case "unregister":
			h.UnregisterRemoteSKI(ski)
		}
		cur := int(h.PairingDetailForSki(ski).State())
		if l := res.Hub[s.Ski]; len(l) == 0 || l[len(l)-1] != cur {
			res.Hub[s.Ski] = append(res.Hub[s.Ski], cur)
		}
		if s.Gap > 0 {
			time.Sleep(time.Duration(s.Gap))
		}
	}
	time.Sleep(2*time.Second + 40*time.Duration(sc.SlowMs)*time.Millisecond)
	synctest.Wait()
	rd.mu.Lock()
	for _, n := range rd.Notes {
		for i := 0; i < 8; i++ {
			if n.Ski == skiOf(i) {
				res.Delivered[i] = append(res.Delivered[i], n.State)
			}
		}
	}
	rd.mu.Unlock()
	for i := range res.Hub {
		res.Final[i] = int(h.PairingDetailForSki(skiOf(i)).State())
	}
	h.Shutdown()
	time.Sleep(time.Second)
	return res
}

func dedupe(l []int) []int {
	var o []int
	for _, x := range l {
		if len(o) == 0 || o[len(o)-1] != x {
			o = append(o, x)
		}
	}
	return o
}

func isSubsequence(d, s []int) bool {
	j := 0
	for _, x := range d {
		for j < len(s) && s[j] != x {
			j++
		}
		if j == len(s) {
			return false
		}
		// the same state may be delivered again while it is current: do not consume
	}
	return true
}

func judgeC18(t *testing.T, sc C18Script) (key, msg string, res *c18Result) {
	old := runtime.GOMAXPROCS(sc.Procs)
	defer runtime.GOMAXPROCS(old)
	var mu sync.Mutex
	err := core.Bubble(t, func() {
		x := runC18(sc)
		mu.Lock()
		res = x
		mu.Unlock()
	})
	mu.Lock()
	defer mu.Unlock()
	if core.IsInconclusive(err) {
		return "inconclusive", err.Error(), nil
	}
	if res == nil {
		return "harness/bubble", fmt.Sprint(err), nil
	}
	for i, hubSeq := range res.Hub {
		d := res.Delivered[i]
		if len(hubSeq) > 1 && len(d) == 0 {
			return "C18/never-notified", fmt.Sprintf("SKI #%d: the hub's state went through %v but the application was never notified", i, hubSeq), res
		}
		if len(d) == 0 {
			continue
		}
		if last := d[len(d)-1]; last != res.Final[i] {
			return "C18/last-notification-stale", fmt.Sprintf("SKI #%d: the last notification shows state %d but the hub reports %d (delivered %v, hub's own sequence %v)", i, last, res.Final[i], d, hubSeq), res
		}
		// the initial state "none" is never notified but may legitimately be current at the start
		if !isSubsequence(dedupe(d), append([]int{0}, hubSeq...)) {
			return "C18/older-after-newer", fmt.Sprintf("SKI #%d: notifications %v are not in the order of the hub's own state sequence %v", i, d, hubSeq), res
		}
	}
	if err != nil {
		return "C18/leak", err.Error(), res
	}
	return "", "", res
}

var templates = [][]uint{
	{4, 5, 6, 10, 11, 7, 8, 13, 18, 20, 21, 25, 26, 27, 31, 36, 37, 38},
	{1, 2, 3, 6, 7, 8, 13, 19, 22, 24, 26, 27, 31, 36, 37, 38},
	{1, 2, 3, 6, 7, 8, 16},
	{4, 5, 6, 10, 11, 14, 15},
	{4, 5, 6, 10, 11},
	{1, 2, 3, 6, 7, 8, 17},
}

var gaps = []int64{0, 0, 1000, int64(time.Millisecond), int64(100 * time.Millisecond), int64(600 * time.Millisecond)}

func genC18(t *rapid.T) (C18Script, bool) {
	sc := C18Script{Procs: rapid.SampledFrom([]int{1, 2, 16}).Draw(t, "procs"), SlowMs: rapid.SampledFrom([]int{0, 0, 1, 300, 700}).Draw(t, "slowMs")}
	nSki := rapid.IntRange(1, 4).Draw(t, "nSki")
	type run struct {
		ski   int
		steps []C18Step
	}
	var runs []run
	for i := 0; i < nSki; i++ {
		tpl := rapid.SampledFrom(templates).Draw(t, "tpl")
		cut := rapid.IntRange(1, len(tpl)).Draw(t, "cut")
		var st []C18Step
		if rapid.Bool().Draw(t, "registerFirst") {
			st = append(st, C18Step{Ski: i, Op: "register"})
		}
		for _, s := range tpl[:cut] {
			st = append(st, C18Step{Ski: i, Op: "state", State: s})
		}
		if cut < len(tpl) && rapid.Bool().Draw(t, "endInError") {
			st = append(st, C18Step{Ski: i, Op: "state", State: 39, Err: true})
		}
		if rapid.IntRange(0, 3).Draw(t, "userOp") == 0 {
			pos := rapid.IntRange(0, len(st)).Draw(t, "userPos")
			op := rapid.SampledFrom([]string{"register", "cancel", "unregister"}).Draw(t, "userOpKind")
			st = append(st[:pos:pos], append([]C18Step{{Ski: i, Op: op}}, st[pos:]...)...)
		}
		runs = append(runs, run{i, st})
	}
	// interleave the per-SKI runs
	quick := false
	for {
		var alive []int
		for i, r := range runs {
			if len(r.steps) > 0 {
				alive = append(alive, i)
			}
		}
		if len(alive) == 0 {
			break
		}
		i := alive[rapid.IntRange(0, len(alive)-1).Draw(t, "pick")]
		s := runs[i].steps[0]
		runs[i].steps = runs[i].steps[1:]
		s.Gap = rapid.SampledFrom(gaps).Draw(t, "gap")
		if s.Gap < int64(500*time.Millisecond) {
			quick = true
		}
		sc.Steps = append(sc.Steps, s)
	}
	return sc, quick
}

// TestC18 — pairing-state notifications end with the current state and never go backwards.
func TestC18(t *testing.T) {
	st := core.Begin(t, "C18", "hubsim")
	defer st.End()
	rapid.Check(t, func(rt *rapid.T) {
		sc, quick := genC18(rt)
		key, msg, _ := judgeC18(t, sc)
		if key == "inconclusive" {
			st.AddInconclusive()
			return
		}
		st.Case(sc, quick && len(sc.Steps) >= 3, fmt.Sprintf("gomaxprocs:%d", sc.Procs), fmt.Sprintf("slow-application-ms:%d", sc.SlowMs))
		if key != "" {
			st.Fail(key, msg, sc)
			rt.Fatalf("%s: %s", key, msg)
		}
	})
}

// TestReplay executes a replay file with the monitor of its property, bypassing rapid.
func TestReplay(t *testing.T) {
	if *core.ReplayFlag == "" {
		t.Skip("no -script")
	}
	f, err := core.LoadReplay(*core.ReplayFlag)
	if err != nil {
		t.Fatal(err)
	}
	var sc C18Script
	if err := json.Unmarshal(f.Script, &sc); err != nil {
		t.Fatal(err)
	}
	// the order of simultaneously due notifications is up to the scheduler: repeat
	var key, msg string
	for i := 0; i < 200 && key == ""; i++ {
		key, msg, _ = judgeC18(t, sc)
		if key == "inconclusive" {
			key = ""
		}
	}
	core.ReplayVerdict(t, f.Property, key, msg)
}
