package shipsim

import (
	"encoding/json"
	"fmt"
	"testing"
	"testing/synctest"
	"time"

	"pgregory.net/rapid"

	"verifharness/core"
	"verifharness/jsonrt"
)

// EnvScript: SPINE datagrams written by the application of one side after completion.
type EnvScript struct {
	Docs  []string `json:"docs"`
	Sides []int    `json:"sides"`
}

// runEnvelope completes a handshake between two real endpoints and sends the
// documents through WriteShipMessageWithPayload; returns what the peer's
// reader received per document ("" = nothing).
func runEnvelope(sc EnvScript) (got []string, herr string) {
	cfg := Config{Paired: [2]bool{true, true}, AllowWaiting: [2]bool{true, true}, LocalID: [2]string{"c", "s"}}
	w := NewWorld(cfg)
	w.conn[Server].Run()
	w.conn[Client].Run()
	synctest.Wait()
	w.apply(Event{K: EvDrain})
	if w.snap(0).State != stComplete || w.snap(1).State != stComplete {
		return nil, "harness: handshake did not complete"
	}
	for i, d := range sc.Docs {
		s := sc.Sides[i] & 1
		before := w.logLen()
		w.writer[s].WriteShipMessageWithPayload([]byte(d))
		for {
			m, ok := w.pop(1 - s)
			if !ok {
				break
			}
			w.deliver(1-s, m)
		}
		synctest.Wait()
		res := ""
		w.mu.Lock()
		for _, o := range w.log[before:] {
			if o.Kind == "payload" && o.Side == 1-s {
				res = o.Data
			}
		}
		w.mu.Unlock()
		got = append(got, res)
	}
	w.conn[Client].CloseConnection(false, 0, "")
	w.conn[Server].CloseConnection(false, 0, "")
	time.Sleep(time.Minute)
	return got, ""
}

func judgeEnvelope(t *testing.T, sc EnvScript, relaxEmptyArrays bool) (key, msg string) {
	var got []string
	var herr string
	if err := core.Bubble(t, func() { got, herr = runEnvelope(sc) }); err != nil {
		if core.IsInconclusive(err) {
			return "inconclusive", err.Error()
		}
		return "harness/bubble", err.Error()
	}
	if herr != "" {
		return "harness", herr
	}
	for i, d := range sc.Docs {
		want, err := jsonrt.Parse([]byte(d))
		if err != nil {
			return "harness/invalid-input", err.Error()
		}
		f := jsonrt.Analyse(want)
		if relaxEmptyArrays && f.EmptyArr > 0 {
			want = jsonrt.EmptyArraysToObjects(want)
		}
		if got[i] == "" {
			return "C07/envelope-lost", fmt.Sprintf("datagram %q was not delivered to the peer's reader", d)
		}
		node, err := jsonrt.Parse([]byte(got[i]))
		if err != nil {
			return "C07/envelope-unparseable", fmt.Sprintf("peer received %q for %q: %v", got[i], d, err)
		}
		if !jsonrt.Equal(node, want) {
			if !relaxEmptyArrays && f.EmptyArr > 0 && jsonrt.Equal(node, jsonrt.EmptyArraysToObjects(want)) {
				return jsonrt.KeyEmptyArray, fmt.Sprintf("empty array came back as empty object end-to-end: sent %q received %q", d, got[i])
			}
			return "C07/envelope", fmt.Sprintf("payload changed end-to-end: sent %q received %q", d, got[i])
		}
	}
	return "", ""
}

// TestC07Envelope — documents survive the data envelope (placeholder splice) end to end.
func TestC07Envelope(t *testing.T) {
	st := core.Begin(t, "C07", "shipsim")
	defer st.End()
	relax := core.Excluded(jsonrt.KeyEmptyArray)
	o := jsonrt.GenOpts{NoPatterns: core.Excluded(jsonrt.KeyStringPattern), MaxDepth: 4, MaxWidth: 4}
	rapid.Check(t, func(rt *rapid.T) {
		n := rapid.IntRange(1, 6).Draw(rt, "nDocs")
		var sc EnvScript
		nt := false
		for i := 0; i < n; i++ {
			inner := jsonrt.GenObject(rt, 1, 0, o)
			doc := &jsonrt.Node{K: jsonrt.KObj, Keys: []string{"datagram"}, Vals: []*jsonrt.Node{inner}}
			if rapid.IntRange(0, 4).Draw(rt, "extraMember") == 0 {
				doc.Keys = append(doc.Keys, "x")
				doc.Vals = append(doc.Vals, jsonrt.GenObject(rt, 2, 0, o))
			}
			f := jsonrt.Analyse(doc)
			if f.Depth >= 2 && (f.StructInStr || f.EmptyArr+f.EmptyObj > 0 || f.BigNum || f.ArrOfObj) {
				nt = true
			}
			if relax && f.EmptyArr > 0 {
				st.AddExcluded(jsonrt.KeyEmptyArray, 1)
			}
			sc.Docs = append(sc.Docs, string(jsonrt.Encode(doc, rapid.IntRange(0, 3).Draw(rt, "style"))))
			sc.Sides = append(sc.Sides, rapid.IntRange(0, 1).Draw(rt, "side"))
		}
		key, msg := judgeEnvelope(t, sc, relax)
		if key == "inconclusive" {
			st.AddInconclusive()
			return
		}
		st.Case(sc, nt, "envelope")
		if key != "" {
			st.Fail(key, msg, sc)
			rt.Fatalf("%s: %s", key, msg)
		}
	})
}

func replayC07Env(t *testing.T, raw json.RawMessage) (string, string) {
	var sc EnvScript
	if err := json.Unmarshal(raw, &sc); err != nil {
		return "harness", err.Error()
	}
	return judgeEnvelope(t, sc, false)
}
