package shipsim

import (
	"time"

	"pgregory.net/rapid"

	"verifharness/jsonrt"
)

// Known-finding keys whose region the generators can exclude (DESIGN.md 4.2).
const (
	KeyApproveInFlight = "C03/approve-while-hello-in-flight"
	KeyDatagramRouting = "C03/datagram-substring-routing"
)

var advanceSteps = []time.Duration{time.Millisecond, 100 * time.Millisecond, 499 * time.Millisecond, 500 * time.Millisecond,
	time.Second, 9900 * time.Millisecond, 10 * time.Second, 29 * time.Second, 30 * time.Second, 31 * time.Second,
	60 * time.Second, 66 * time.Second, 5 * time.Minute}

// Profile weights the event alphabet.
type Profile struct {
	Kinds       []string // weighted by repetition
	MaxEvents   int
	MinEvents   int
	Prefix      int  // maximal length of the valid prefix (deliveries)
	StartFaults bool // write faults may be armed before the connections start
	SlowSetup   bool // the application's setup callback may take 11 virtual seconds
	HostileIDs  bool // SHIP IDs from the hostile string generator
	// server trust classes to draw from: "paired", "auto", "none"
	Trust []string
}

func genID(t *rapid.T, label string, hostile bool) string {
	if !hostile || rapid.IntRange(0, 2).Draw(t, label+"Plain") == 0 {
		return rapid.SampledFrom([]string{"client-id", "server-id", "Demo-EVSE-234567890", "x"}).Draw(t, label)
	}
	return jsonrt.HostileString(t, label, false)
}

// genConfig draws trust configuration and SHIP IDs.
func genConfig(t *rapid.T, p Profile) Config {
	var c Config
	trust := rapid.SampledFrom(p.Trust).Draw(t, "serverTrust")
	c.Paired[Server] = trust == "paired"
	c.AutoAccept[Server] = trust == "auto"
	c.AllowWaiting[Server] = rapid.IntRange(0, 3).Draw(t, "allowS") != 0
	c.AllowWaiting[Client] = rapid.IntRange(0, 3).Draw(t, "allowC") != 0
	c.Paired[Client] = rapid.Bool().Draw(t, "pairedC") // the hub only dials registered SKIs, but the role decides anyway
	if p.SlowSetup {
		c.SlowSetup[Client] = rapid.IntRange(0, 5).Draw(t, "slowSetupC") == 0
		c.SlowSetup[Server] = rapid.IntRange(0, 5).Draw(t, "slowSetupS") == 0
	}
	c.InitBeforeRun = rapid.IntRange(0, 4).Draw(t, "initBeforeRun") == 0
	c.LocalID[Client] = genID(t, "idC", p.HostileIDs)
	c.LocalID[Server] = genID(t, "idS", p.HostileIDs)
	for s := 0; s < 2; s++ {
		switch rapid.IntRange(0, 3).Draw(t, "stored") {
		case 0, 1: // unknown
		case 2, 3: // known and correct
			c.StoredID[s] = c.LocalID[1-s]
		}
	}
	return c
}

func genEvent(t *rapid.T, p Profile) Event {
	k := rapid.SampledFrom(p.Kinds).Draw(t, "ev")
	ev := Event{K: k, S: rapid.IntRange(0, 1).Draw(t, "side")}
	switch k {
	case EvInject:
		ev.M = genHostile(t)
		ev.T = show(ev.M)
	case "data": // a valid SPINE data frame injected by the man in the middle
		ev.K = EvInject
		ev.N = 1000 + rapid.IntRange(0, 99).Draw(t, "n")
		ev.M = MsgData(SpinePayload(1-ev.S, ev.N))
		ev.T = show(ev.M)
	case EvAdvance:
		ev.S = 0
		ev.D = int64(rapid.SampledFrom(advanceSteps).Draw(t, "d"))
	case EvSetPaired, EvSetAllow, EvSetAuto:
		ev.B = rapid.Bool().Draw(t, "b")
	case EvCloseLocal:
		ev.B = rapid.Bool().Draw(t, "safe")
		ev.N = rapid.SampledFrom([]int{0, 0, 4001, 4500}).Draw(t, "code")
		ev.Reason = rapid.SampledFrom([]string{"", "User close", "datagram"}).Draw(t, "reason")
	case EvSpineWrite:
		ev.N = rapid.IntRange(0, 99).Draw(t, "n")
	case EvFailWrite, EvFailOnce:
		ev.N = rapid.IntRange(1, 4).Draw(t, "k")
	case EvUserDuring:
		ev.N = rapid.IntRange(1, 3).Draw(t, "k")
		ev.B = rapid.Bool().Draw(t, "approve")
		if rapid.IntRange(0, 3).Draw(t, "userSide") != 0 {
			ev.S = Server
		}
	case EvApprove, EvCancel:
		if rapid.IntRange(0, 4).Draw(t, "userSide") != 0 {
			ev.S = Server
		}
	}
	return ev
}

func genScript(t *rapid.T, p Profile) Script {
	sc := Script{Cfg: genConfig(t, p)}
	if p.StartFaults {
		// a write fault that is armed before the connections start (so that the very first writes can fail)
		for s := 0; s < 2; s++ {
			switch rapid.IntRange(0, 11).Draw(t, "startFault") {
			case 0:
				sc.Cfg.FailStart[s] = rapid.IntRange(1, 3).Draw(t, "failStart")
			case 1:
				sc.Cfg.FailOnceStart[s] = rapid.IntRange(1, 6).Draw(t, "failOnceStart")
			}
		}
	}
	// valid prefix: the man in the middle lets the real exchange run for j
	// deliveries (with the user approving somewhere if the server waits for
	// trust), so that every handshake state is reached for both roles
	if p.Prefix > 0 {
		j := rapid.IntRange(0, p.Prefix).Draw(t, "prefix")
		approveAt := -1
		if !sc.Cfg.Paired[Server] && !sc.Cfg.AutoAccept[Server] && rapid.IntRange(0, 3).Draw(t, "prefixApprove") != 0 {
			approveAt = rapid.IntRange(0, 6).Draw(t, "approveAt")
		}
		for i := 0; i < j; i++ {
			if i == approveAt {
				sc.Events = append(sc.Events, Event{K: EvApprove, S: Server})
			}
			sc.Events = append(sc.Events, Event{K: EvStep, S: rapid.IntRange(0, 1).Draw(t, "stepSide")})
		}
	}
	n := rapid.IntRange(p.MinEvents, p.MaxEvents).Draw(t, "nEvents")
	for i := 0; i < n; i++ {
		sc.Events = append(sc.Events, genEvent(t, p))
	}
	return sc
}

func rep(k string, n int) []string {
	out := make([]string, n)
	for i := range out {
		out[i] = k
	}
	return out
}

func kinds(pairs ...any) []string {
	var out []string
	for i := 0; i+1 < len(pairs); i += 2 {
		out = append(out, rep(pairs[i].(string), pairs[i+1].(int))...)
	}
	return out
}

// Adversarial profile: the peer can do anything (C01, C04, C08, C11).
var profAdversarial = Profile{
	Kinds: kinds(EvStep, 10, EvDeliver, 3, EvDrain, 2, EvInject, 8, "data", 3, EvAdvance, 5, EvApprove, 2, EvCancel, 2, EvDrop, 1, EvDup, 1,
		EvSetPaired, 1, EvSetAllow, 1, EvCloseLocal, 1, EvTransportError, 1, EvPropagate, 2, EvSpineWrite, 2, EvFailWrite, 1, EvFailOnce, 1, EvBurst, 1, EvSetAuto, 1, EvAnnounceFail, 1),
	MinEvents: 0, MaxEvents: 30, Prefix: 20, HostileIDs: false, StartFaults: true, SlowSetup: true, Trust: []string{"none", "none", "none", "paired", "auto"},
}

// Scheduling-only profile (C03): both endpoints are the code under test and
// the man in the middle only chooses the order of things.
var profSchedule = Profile{
	Kinds:     kinds(EvDeliver, 16, EvDrain, 2, EvAdvance, 4, EvApprove, 2, EvCancel, 1, EvPropagate, 2),
	MinEvents: 0, MaxEvents: 40, HostileIDs: true, SlowSetup: true, Trust: []string{"none", "none", "none", "paired", "auto"},
}
