package shipsim

import (
	"encoding/json"
	"fmt"
	"strings"
	"sync"
	"testing"
	"time"

	"pgregory.net/rapid"

	"github.com/enbility/ship-go/logging"
	"verifharness/core"
)

// Real-time run of the SHIP layer (no bubble): two real endpoints, frames delivered by pump
// goroutines, user actions, transport errors and timers armed by the peer / the harness at
// drawn wall-clock offsets - truly concurrent with the handlers, which the virtual clock
// cannot do (there a timer only expires once everything else is blocked). An application
// logger that is slow for the line logged inside a state change (the connection's mutex is
// held there) stretches that window from nanoseconds to milliseconds.
//
// Oracle (C08): nothing panics and every call returns - a case that does not finish is
// examined with two stack dumps; goroutines blocked on a lock inside ship-go with an
// unchanged stack are a deadlock, anything else is inconclusive. Under the race detector the
// same run serves C20.

// RealAct is something that happens AtMs after the connections started.
type RealAct struct {
	AtMs int    `json:"atMs"`
	K    string `json:"k"` // approve | cancel | transportError | closeLocal | arm | peerWaiting | spineWrite
	S    int    `json:"s"`
	N    int    `json:"n,omitempty"` // arm: timer duration ms; peerWaiting: the peer asks to wait 30 s + N ms
	B    bool   `json:"b,omitempty"`
}

// SlowState: the logger needs Ms for the line "SHIP state changed to: State" of this case's connections.
type SlowState struct {
	State uint `json:"state"`
	Ms    int  `json:"ms"`
}

type RealScript struct {
	Cfg  Config      `json:"cfg"`
	Slow []SlowState `json:"slow"`
	Acts []RealAct   `json:"acts"`
}

// ---- the slow logger (process wide, as the library's logger is) ---------------------------

type realRule struct {
	needle string // "<remote ski> SHIP state changed to: <n>"
	d      time.Duration
}

type realLogger struct {
	mu    sync.RWMutex
	rules map[int][]realRule
	next  int
}

var theRealLogger = &realLogger{rules: map[int][]realRule{}}

func init() { logging.SetLogging(theRealLogger) }

func (l *realLogger) add(rs []realRule) func() {
	if len(rs) == 0 {
		return func() {}
	}
	l.mu.Lock()
	id := l.next
	l.next++
	l.rules[id] = rs
	l.mu.Unlock()
	return func() { l.mu.Lock(); delete(l.rules, id); l.mu.Unlock() }
}

func (l *realLogger) line(args []interface{}) {
	l.mu.RLock()
	n := len(l.rules)
	l.mu.RUnlock()
	if n == 0 {
		return
	}
	s := strings.TrimSpace(fmt.Sprintln(args...))
	var d time.Duration
	l.mu.RLock()
	for _, rs := range l.rules {
		for _, r := range rs {
			if strings.HasSuffix(s, r.needle) && r.d > d {
				d = r.d
			}
		}
	}
	l.mu.RUnlock()
	if d > 0 {
		time.Sleep(d)
	}
}

func (l *realLogger) Trace(args ...interface{})         { l.line(args) }
func (l *realLogger) Tracef(string, ...interface{})     {}
func (l *realLogger) Debug(args ...interface{})         {}
func (l *realLogger) Debugf(string, ...interface{})     {}
func (l *realLogger) Info(args ...interface{})          {}
func (l *realLogger) Infof(string, ...interface{})      {}
func (l *realLogger) Error(args ...interface{})         {}
func (l *realLogger) Errorf(f string, a ...interface{}) {}

// ---- execution ------------------------------------------------------------------------------

var realCaseNo struct {
	sync.Mutex
	n int
}

// runReal executes the script in real time; returns "" or a description of a recovered panic.
func runReal(sc RealScript) (panicked string) {
	realCaseNo.Lock()
	realCaseNo.n++
	suffix := fmt.Sprintf("-r%d", realCaseNo.n)
	realCaseNo.Unlock()

	w := newWorldSKI(sc.Cfg, suffix)
	var rules []realRule
	for _, s := range sc.Slow {
		for side := 0; side < 2; side++ {
			rules = append(rules, realRule{needle: fmt.Sprintf("%s%s SHIP state changed to: %d", peerSKI[side], suffix, s.State), d: time.Duration(s.Ms) * time.Millisecond})
		}
	}
	remove := theRealLogger.add(rules)
	defer remove()

	var pmu sync.Mutex
	guard := func(f func()) {
		defer func() {
			if r := recover(); r != nil {
				pmu.Lock()
				panicked = fmt.Sprint(r)
				pmu.Unlock()
			}
		}()
		f()
	}
	// frames are delivered by one pump per direction, 1 ms after they were written
	w.startPumps()
	w.setPump(true)
	guard(func() { w.conn[Server].Run(); w.conn[Client].Run() })

	start := time.Now()
	var wg sync.WaitGroup
	last := 0
	for _, a := range sc.Acts {
		if a.AtMs > last {
			last = a.AtMs
		}
		wg.Add(1)
		go func(a RealAct) {
			defer wg.Done()
			if d := time.Duration(a.AtMs)*time.Millisecond - time.Since(start); d > 0 {
				time.Sleep(d)
			}
			guard(func() {
				s := a.S & 1
				switch a.K {
				case "approve":
					w.apply(Event{K: EvApprove, S: s})
				case "cancel":
					w.apply(Event{K: EvCancel, S: s})
				case "transportError":
					w.apply(Event{K: EvTransportError, S: s})
				case "closeLocal":
					w.apply(Event{K: EvCloseLocal, S: s, B: a.B})
				case "spineWrite":
					w.apply(Event{K: EvSpineWrite, S: s, N: a.N})
				case "arm":
					// any phase's timer, with a short duration (timer type 0 = wait for ready)
					w.conn[s].VerifArmTimer(uint(a.N%3), time.Duration(a.N)*time.Millisecond)
				case "peerWaiting":
					// the peer asks the waiting side to send its prolongation request in N ms
					wt := uint64(30000 + a.N)
					w.enqueue(s, MsgHello("pending", &wt, nil))
				}
			})
		}(a)
	}
	wg.Wait()
	// let the exchange and the stretched state changes run out, then end both connections
	time.Sleep(time.Duration(150+2*maxSlow(sc)) * time.Millisecond)
	guard(func() {
		w.mu.Lock()
		w.allow, w.paired = [2]bool{}, [2]bool{}
		w.mu.Unlock()
		w.conn[Client].CloseConnection(false, 0, "")
		w.conn[Server].CloseConnection(false, 0, "")
	})
	w.stopPumps()
	// every public entry point must still answer (a connection mutex held for ever shows here)
	guard(func() {
		for s := 0; s < 2; s++ {
			_, _ = w.conn[s].ShipHandshakeState()
			w.conn[s].VerifStopTimer()
		}
	})
	return panicked
}

func maxSlow(sc RealScript) int {
	m := 0
	for _, s := range sc.Slow {
		if s.Ms > m {
			m = s.Ms
		}
	}
	return m
}

// judgeReal runs the case under a wall-clock watchdog. Returns key "" | C08/real-panic | C08/real-deadlock | inconclusive.
func judgeReal(sc RealScript) (key, msg string) {
	done := make(chan string, 1)
	go func() { done <- runReal(sc) }()
	select {
	case p := <-done:
		if p != "" {
			return "C08/real-panic", "a SHIP entry point panicked in the real-time run: " + p
		}
		return "", ""
	case <-time.After(12 * time.Second):
	}
	a := realBlocked()
	select {
	case p := <-done:
		if p != "" {
			return "C08/real-panic", "a SHIP entry point panicked in the real-time run: " + p
		}
		return "", ""
	case <-time.After(2 * time.Second):
	}
	b := realBlocked()
	for id, st := range a {
		if b[id] == st {
			return "C08/real-deadlock", "the case does not finish and goroutines are blocked on a lock inside ship-go with an unchanged stack: " + st
		}
	}
	return "inconclusive", "case still running after 14 s without a provable deadlock"
}

// realBlocked: goroutines blocked on a mutex with a ship-go frame (id -> stack summary).
func realBlocked() map[string]string {
	res := map[string]string{}
	for _, g := range strings.Split(core.FullStack(), "\n\n") {
		lines := strings.Split(g, "\n")
		if len(lines) < 2 || !strings.HasPrefix(lines[0], "goroutine ") {
			continue
		}
		head := lines[0]
		if !(strings.Contains(head, "sync.Mutex.Lock") || strings.Contains(head, "semacquire") || strings.Contains(head, "sync.RWMutex")) ||
			!strings.Contains(g, "github.com/enbility/ship-go/") {
			continue
		}
		var fr []string
		for _, l := range lines[1:] {
			if !strings.HasPrefix(l, "\t") && (strings.Contains(l, "ship-go/") || strings.Contains(l, "sync.")) {
				if i := strings.LastIndex(l, "("); i > 0 {
					l = l[:i]
				}
				fr = append(fr, l)
			}
			if len(fr) >= 8 {
				break
			}
		}
		res[strings.Fields(head)[1]] = strings.Join(fr, " <- ")
	}
	return res
}

var realStates = []uint{9, 11, 13, 14, 15, 16, 19, 22, 36, 37, 38, 39, 8, 7}

func genReal(t *rapid.T) RealScript {
	sc := RealScript{Cfg: genConfig(t, Profile{Trust: []string{"paired", "paired", "auto", "none", "none"}})}
	for i, n := 0, rapid.IntRange(0, 3).Draw(t, "nSlow"); i < n; i++ {
		sc.Slow = append(sc.Slow, SlowState{State: rapid.SampledFrom(realStates).Draw(t, "slowState"), Ms: rapid.SampledFrom([]int{5, 25, 60}).Draw(t, "slowMs")})
	}
	for i, n := 0, rapid.IntRange(1, 10).Draw(t, "nActs"); i < n; i++ {
		a := RealAct{AtMs: rapid.SampledFrom([]int{0, 0, 1, 2, 4, 8, 15, 30, 60, 100, 180}).Draw(t, "at"),
			K: rapid.SampledFrom([]string{"approve", "approve", "cancel", "cancel", "transportError", "closeLocal", "arm", "arm", "arm", "peerWaiting", "peerWaiting", "spineWrite"}).Draw(t, "act"),
			S: rapid.IntRange(0, 1).Draw(t, "side")}
		switch a.K {
		case "arm":
			a.N = rapid.SampledFrom([]int{1, 3, 8, 20, 45, 90}).Draw(t, "timerMs")
		case "peerWaiting":
			a.N = rapid.SampledFrom([]int{1, 5, 20, 50}).Draw(t, "waitMs")
			a.S = Server
		case "closeLocal":
			a.B = rapid.Bool().Draw(t, "safe")
		case "approve", "cancel":
			if rapid.IntRange(0, 3).Draw(t, "userSide") != 0 {
				a.S = Server
			}
		case "spineWrite":
			a.N = rapid.IntRange(0, 99).Draw(t, "n")
		}
		sc.Acts = append(sc.Acts, a)
	}
	return sc
}

// TestC08Real — the SHIP layer in real time: timers, user actions and transport errors truly
// concurrent with the handlers; no panic, no deadlock.
func TestC08Real(t *testing.T) {
	st := core.Begin(t, "C08", "shipsim")
	defer st.End()
	batch := core.EnvInt("VERIF_BATCH", 32)
	rapid.Check(t, func(rt *rapid.T) {
		scs := make([]RealScript, batch)
		for i := range scs {
			scs[i] = genReal(rt)
		}
		keys, msgs := make([]string, batch), make([]string, batch)
		var wg sync.WaitGroup
		for i := range scs {
			wg.Add(1)
			go func(i int) {
				defer wg.Done()
				core.Journal(scs[i])
				keys[i], msgs[i] = judgeReal(scs[i])
			}(i)
		}
		wg.Wait()
		for i := range scs {
			if keys[i] == "inconclusive" {
				st.AddInconclusive()
				continue
			}
			timers, slow := 0, len(scs[i].Slow) > 0
			for _, a := range scs[i].Acts {
				if a.K == "arm" || a.K == "peerWaiting" {
					timers++
				}
			}
			st.Case(scs[i], timers > 0 && slow, "real-time", fmt.Sprintf("stretched-state-change:%v", slow))
			if keys[i] != "" {
				st.Fail(keys[i], msgs[i], scs[i])
				rt.Fatalf("%s: %s", keys[i], msgs[i])
			}
		}
	})
}

func replayReal(raw json.RawMessage) (string, string) {
	var sc RealScript
	if err := json.Unmarshal(raw, &sc); err != nil {
		return "harness", err.Error()
	}
	for i := 0; i < 5; i++ {
		if k, m := judgeReal(sc); k != "" && k != "inconclusive" {
			return k, m
		}
	}
	return "", ""
}
