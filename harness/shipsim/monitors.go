package shipsim

import (
	"fmt"
	"regexp"
	"strings"
)

// SHIP states (numeric values of model.ShipMessageExchangeState).
const (
	stInitStart      = 0
	stClientSend     = 1
	stClientWait     = 2
	stClientEval     = 3
	stServerWait     = 4
	stServerEval     = 5
	stHello          = 6
	stReadyInit      = 7
	stReadyListen    = 8
	stPendingInit    = 10
	stPendingListen  = 11
	stHelloOk        = 13
	stAbort          = 14
	stAbortDone      = 15
	stRemoteAbort    = 16
	stRejected       = 17
	stServerInit     = 18
	stClientInit     = 19
	stListenProposal = 20
	stListenConfirm  = 21
	stListenChoice   = 22
	stClientOk       = 24
	stServerOk       = 25
	stPinInit        = 26
	stPinListen      = 27
	stPinOk          = 31
	stAccessRequest  = 36
	stApproved       = 37
	stComplete       = 38
	stError          = 39
)

// trustedState: states that mean trust was established (hello ok and later).
func trustedState(s uint) bool { return s == stHelloOk || (s >= stServerInit && s <= stComplete) }

// terminal outcomes of a handshake.
func terminalState(s uint) bool {
	return s == stError || s == stAbortDone || s == stRemoteAbort || s == stRejected
}

// progress states: everything that is not a terminal outcome or the abort in progress.
func progressState(s uint) bool { return !terminalState(s) && s != stAbort }

func phaseOf(s uint) int {
	switch {
	case s <= stServerEval:
		return 0
	case s <= stRejected:
		return 1
	case s <= stServerOk:
		return 2
	case s <= 35:
		return 3
	case s == stAccessRequest:
		return 4
	case s == stApproved:
		return 5
	case s == stComplete:
		return 6
	}
	return -1 // error
}

var phaseName = []string{"init", "hello", "protocol", "pin", "access", "approved", "complete"}

// Facts are per-side projections of the log.
// a close announce in the exact form the library writes (no other spelling is relied upon)
var closeAnnounceRe = regexp.MustCompile(`^\x03\{"connectionClose":\[\{"phase":"announce"\}(,\{"maxTime":[0-9]{1,4}\})?(,\{"reason":"[A-Za-z ]*"\})?\]\}$`)

type Facts struct {
	States   [2][]int // log indices of "state" observations
	Setups   [2][]int
	ShipIDs  [2][]int
	Closed   [2][]int
	Payloads [2][]int
	Writes   [2][]int
	Arrive   [2][]int
	// first log index at which trust was granted by the local side (-1 = never)
	Granted [2]int
	// log index of the first effective cancel (-1 = none)
	Cancelled [2]int
	// first log index at which the transport was closed locally / by error (-1 = never)
	TrClosedAt [2]int
}

func facts(tr *Trace) *Facts {
	f := &Facts{Granted: [2]int{0, -1}, Cancelled: [2]int{-1, -1}, TrClosedAt: [2]int{-1, -1}}
	// the client role is "locally initiated": trusted from the start
	for i, o := range tr.Log {
		s := o.Side
		switch o.Kind {
		case "state":
			f.States[s] = append(f.States[s], i)
		case "setup":
			f.Setups[s] = append(f.Setups[s], i)
		case "shipid":
			f.ShipIDs[s] = append(f.ShipIDs[s], i)
		case "closed":
			f.Closed[s] = append(f.Closed[s], i)
		case "payload":
			f.Payloads[s] = append(f.Payloads[s], i)
		case "write":
			f.Writes[s] = append(f.Writes[s], i)
		case "arrive":
			f.Arrive[s] = append(f.Arrive[s], i)
		case "trust":
			if f.Granted[s] < 0 {
				f.Granted[s] = i
			}
		case "user-approve":
			if o.Flag && f.Granted[s] < 0 {
				f.Granted[s] = i
			}
		case "user-cancel":
			if o.Flag && f.Cancelled[s] < 0 {
				f.Cancelled[s] = i
			}
		case "closeTransport", "report":
			if f.TrClosedAt[s] < 0 {
				f.TrClosedAt[s] = i
			}
		}
	}
	return f
}

// lastStateBefore returns the last reported state of side s before log index i (InitStart if none).
func (f *Facts) lastStateBefore(tr *Trace, s, i int) uint {
	st := uint(stInitStart)
	for _, j := range f.States[s] {
		if j >= i {
			break
		}
		st = tr.Log[j].State
	}
	return st
}

func (f *Facts) completed(tr *Trace, s int) bool {
	for _, j := range f.States[s] {
		if tr.Log[j].State == stComplete {
			return true
		}
	}
	return false
}

func describe(o Obs) string {
	d := o.Data
	if len(d) > 80 {
		d = d[:80] + "..."
	}
	return fmt.Sprintf("[step %d %s %s state=%d err=%q data=%q flag=%v t=%dms]", o.Step, sideName[o.Side&1], o.Kind, o.State, o.Err, d, o.Flag, o.At/1e6)
}

// ---- C01: trust gate ----------------------------------------------------------

func monitorC01(tr *Trace) (key, msg string) {
	f := facts(tr)
	for s := 0; s < 2; s++ {
		for _, i := range f.States[s] {
			st := tr.Log[i].State
			if trustedState(st) {
				if f.Granted[s] < 0 || f.Granted[s] > i {
					return "C01/trusted-state-without-trust", fmt.Sprintf("%s reported state %d although the local side never granted trust: %s", sideName[s], st, describe(tr.Log[i]))
				}
				if c := f.Cancelled[s]; c >= 0 && c < i && !trustedState(f.lastStateBefore(tr, s, c)) {
					return "C01/progress-after-cancel", fmt.Sprintf("%s reported state %d after the user cancelled the pending request: %s", sideName[s], st, describe(tr.Log[i]))
				}
			}
		}
		for _, i := range f.Setups[s] {
			if f.Granted[s] < 0 || f.Granted[s] > i {
				return "C01/setup-without-trust", fmt.Sprintf("%s set up the remote device without trust: %s", sideName[s], describe(tr.Log[i]))
			}
		}
		for _, i := range f.Payloads[s] {
			if f.Granted[s] < 0 || f.Granted[s] > i {
				return "C01/payload-without-trust", fmt.Sprintf("%s delivered a SPINE payload without trust: %s", sideName[s], describe(tr.Log[i]))
			}
			if len(f.Setups[s]) == 0 || f.Setups[s][0] > i {
				return "C01/payload-before-setup", fmt.Sprintf("%s delivered a SPINE payload before SetupRemoteDevice: %s", sideName[s], describe(tr.Log[i]))
			}
			if st := f.lastStateBefore(tr, s, i); st != stComplete {
				return "C01/payload-before-complete", fmt.Sprintf("%s delivered a SPINE payload in state %d: %s", sideName[s], st, describe(tr.Log[i]))
			}
		}
	}
	return "", ""
}

// ---- C04: state graph and finality ---------------------------------------------

// edge table per role, written from SHIP 1.0.1 13.4.3 - 13.4.6 (see DESIGN.md C04)
var edges = map[[2]uint]bool{}

func init() {
	add := func(from uint, to ...uint) {
		for _, t := range to {
			edges[[2]uint{from, t}] = true
		}
	}
	add(stInitStart, stClientSend, stServerWait)
	add(stClientSend, stClientWait)
	add(stClientWait, stClientEval)
	add(stClientEval, stHello)
	add(stServerWait, stServerEval)
	add(stServerEval, stHello)
	add(stHello, stReadyInit, stPendingInit)
	add(stReadyInit, stReadyListen, stAbort)
	add(stReadyListen, stHelloOk, stAbort, stRemoteAbort, stRejected)
	add(stPendingInit, stPendingListen)
	add(stPendingListen, stReadyInit, stAbort, stRemoteAbort)
	add(stAbort, stAbortDone)
	add(stHelloOk, stServerInit, stClientInit)
	add(stServerInit, stListenProposal)
	add(stListenProposal, stListenConfirm)
	add(stListenConfirm, stServerOk)
	add(stServerOk, stPinInit)
	add(stClientInit, stListenChoice)
	add(stListenChoice, stClientOk)
	add(stClientOk, stPinInit)
	add(stPinInit, stPinListen)
	add(stPinListen, stPinOk)
	add(stPinOk, stAccessRequest)
	add(stAccessRequest, stApproved)
	add(stApproved, stComplete)
	// every non-terminal state may end in error (incl. a completed connection that is lost)
	for s := uint(0); s <= stComplete; s++ {
		if !terminalState(s) {
			add(s, stError)
		}
	}
}

var clientOnly = map[uint]bool{stClientSend: true, stClientWait: true, stClientEval: true, stClientInit: true, stListenChoice: true, stClientOk: true}
var serverOnly = map[uint]bool{stServerWait: true, stServerEval: true, stServerInit: true, stListenProposal: true, stListenConfirm: true, stServerOk: true}

// closing frames: hello aborted, protocol handshake error, connectionClose
func closingFrame(data string) bool {
	return strings.Contains(data, `"connectionClose"`) || strings.Contains(data, `"messageProtocolHandshakeError"`) ||
		(strings.Contains(data, `"connectionHello"`) && strings.Contains(data, `"aborted"`))
}

func monitorC04(tr *Trace) (key, msg string) {
	f := facts(tr)
	for s := 0; s < 2; s++ {
		prev := uint(stInitStart)
		phase := 0
		terminalAt := -1 // log index of the first terminal report
		for _, i := range f.States[s] {
			st := tr.Log[i].State
			if st == prev {
				continue // repeated report of the same state
			}
			if (s == Client && serverOnly[st]) || (s == Server && clientOnly[st]) {
				return "C04/wrong-role-state", fmt.Sprintf("%s reported state %d of the other role: %s", sideName[s], st, describe(tr.Log[i]))
			}
			if terminalAt >= 0 && progressState(st) {
				return fmt.Sprintf("C04/progress-after-terminal/%d->%d", prev, st), fmt.Sprintf("%s reported progress state %d after terminal state %d: %s", sideName[s], st, prev, describe(tr.Log[i]))
			}
			if terminalAt < 0 && !edges[[2]uint{prev, st}] {
				return fmt.Sprintf("C04/illegal-edge/%d->%d", prev, st), fmt.Sprintf("%s reported transition %d -> %d which the SHIP state diagram does not allow: %s", sideName[s], prev, st, describe(tr.Log[i]))
			}
			if p := phaseOf(st); p >= 0 {
				if p < phase || p > phase+1 {
					return "C04/phase-order", fmt.Sprintf("%s went from phase %s to %s: %s", sideName[s], phaseName[phase], phaseName[p], describe(tr.Log[i]))
				}
				phase = p
			}
			if terminalState(st) && terminalAt < 0 {
				terminalAt = i
			}
			prev = st
		}
		// finality after a terminal report or a closed transport
		end := terminalAt
		if c := f.TrClosedAt[s]; c >= 0 && (end < 0 || c < end) {
			end = c
		}
		if end >= 0 {
			for _, i := range f.States[s] {
				if i > end && progressState(tr.Log[i].State) && f.TrClosedAt[s] >= 0 && f.TrClosedAt[s] < i {
					return "C04/progress-after-close", fmt.Sprintf("%s reported progress state %d after its transport was closed: %s", sideName[s], tr.Log[i].State, describe(tr.Log[i]))
				}
			}
			for _, i := range f.Writes[s] {
				if i > end && !closingFrame(tr.Log[i].Data) {
					return "C04/send-after-terminal", fmt.Sprintf("%s sent a non-closing frame after its terminal outcome: %s", sideName[s], describe(tr.Log[i]))
				}
			}
		}
		if terminalAt >= 0 {
			// no timer left armed once the step in which the outcome was reached is over
			step := tr.Log[terminalAt].Step
			if step == -1 && tr.StartAfter[s].TimerRunning {
				return "C04/timer-armed-after-terminal", fmt.Sprintf("%s has a handshake timer armed after terminal state %d reached while starting", sideName[s], tr.Log[terminalAt].State)
			}
			if step >= 0 && step < len(tr.Steps) && tr.Steps[step].After[s].TimerRunning {
				return "C04/timer-armed-after-terminal", fmt.Sprintf("%s has a handshake timer armed after terminal state %d (step %d, event %s)", sideName[s], tr.Log[terminalAt].State, step, tr.Steps[step].Ev.K)
			}
			if tr.Script.Settle && !tr.Stable[s].TrClosed {
				return "C04/transport-open-after-terminal", fmt.Sprintf("%s ended in terminal state %d but its transport is still open ten virtual minutes later", sideName[s], tr.Log[terminalAt].State)
			}
		}
		// "closed" is a terminal outcome too: a connection that was told by its peer that it closes
		// (a well-formed close announce, as the library itself writes it) ends with its transport closed
		if tr.Script.Settle && tr.Panic == "" && !tr.Stable[s].TrClosed {
			for _, i := range f.Arrive[s] {
				if closeAnnounceRe.MatchString(tr.Log[i].Data) {
					return "C04/transport-open-after-close-announce", fmt.Sprintf("%s received a close announce (%s) but its transport is still open ten virtual minutes later", sideName[s], describe(tr.Log[i]))
				}
			}
		}
		if f.TrClosedAt[s] >= 0 {
			step := tr.Log[f.TrClosedAt[s]].Step
			if step >= 0 && step < len(tr.Steps) && tr.Steps[step].After[s].TimerRunning {
				return "C04/timer-armed-after-close", fmt.Sprintf("%s has a handshake timer armed although its transport was closed in step %d (event %s)", sideName[s], step, tr.Steps[step].Ev.K)
			}
		}
	}
	// nothing may happen during the second teardown advance (a leaked timer would log something)
	if tr.LateFrom > 0 && len(tr.Log) > tr.LateFrom {
		return "C04/late-activity", fmt.Sprintf("activity more than five virtual minutes after both sides closed: %s", describe(tr.Log[tr.LateFrom]))
	}
	for s := 0; s < 2; s++ {
		if tr.Panic == "" && tr.Final[s].TimerRunning {
			return "C04/timer-armed-at-end", fmt.Sprintf("%s still has a handshake timer armed after close and ten virtual minutes", sideName[s])
		}
	}
	return "", ""
}

// ---- C08: no crash, no wedge ------------------------------------------------------

func monitorC08(tr *Trace) (key, msg string) {
	if tr.Panic != "" {
		ev := "start"
		if tr.PanicAt >= 0 && tr.PanicAt < len(tr.Steps) {
			e := tr.Steps[tr.PanicAt].Ev
			ev = fmt.Sprintf("%s to %s %q in state %d", e.K, sideName[e.S&1], e.T, tr.Steps[tr.PanicAt].Before[e.S&1].State)
		}
		return "C08/panic", fmt.Sprintf("library panicked: %s (event %d: %s)", tr.Panic, tr.PanicAt, ev)
	}
	if tr.Wedge != "" {
		return "C08/wedge", "a library goroutine is blocked for ever on a lock: " + tr.Wedge
	}
	// a single delivery must not keep the receive loop busy for longer than the
	// protocol's own waits (500 ms close wait, 1 s abort wait): more than a virtual minute is a wedge
	for i, st := range tr.Steps {
		if st.Executed && (st.Ev.K == EvInject || st.Ev.K == EvDeliver || st.Ev.K == EvStep) && st.Dur > int64(60e9) {
			return "C08/receive-loop-blocked", fmt.Sprintf("event %d (%s to %s %q in state %d) blocked the receive loop for %d virtual seconds",
				i, st.Ev.K, sideName[st.Ev.S&1], st.Ev.T, st.Before[st.Ev.S&1].State, st.Dur/1e9)
		}
	}
	if tr.BubbleErr != "" {
		return "C08/wedge", "a library goroutine is blocked for ever: " + tr.BubbleErr
	}
	return "", ""
}

// ---- C11a: every connection end reported exactly once ---------------------------------

func monitorC11(tr *Trace) (key, msg string) {
	f := facts(tr)
	for s := 0; s < 2; s++ {
		n := len(f.Closed[s])
		if n > 1 {
			a, b := tr.Log[f.Closed[s][0]], tr.Log[f.Closed[s][1]]
			return "C11/closed-reported-twice", fmt.Sprintf("%s reported HandleConnectionClosed %d times: %s and %s", sideName[s], n, describe(a), describe(b))
		}
		if tr.Panic != "" {
			continue
		}
		before := 0
		for _, i := range f.Closed[s] {
			if i < tr.TeardownFrom {
				before++
			}
		}
		if tr.Script.Settle && tr.Stable[s].TrClosed && before == 0 {
			return "C11/closed-never-reported", fmt.Sprintf("the transport of %s is closed but HandleConnectionClosed was not reported within ten virtual minutes", sideName[s])
		}
		if n == 0 {
			return "C11/closed-never-reported", fmt.Sprintf("%s never reported HandleConnectionClosed although it was closed", sideName[s])
		}
	}
	return "", ""
}
