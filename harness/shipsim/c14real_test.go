package shipsim

import (
	"encoding/json"
	"fmt"
	"strings"
	"sync"
	"testing"
	"time"

	"pgregory.net/rapid"

	"verifharness/core"
)

// Real-time part of C14: timers armed (and stopped) by several goroutines at the same moment -
// what the handlers of a frame, of a user decision and of a timeout do when they meet. The
// virtual clock of TestC14 runs its operations one after the other; here they overlap.
//
// Oracle. All operations of a round are released together and every timer lasts much longer
// than the operations need (a round whose operations had not all returned 10 ms before the
// shortest timer could expire is dropped as inconclusive, so the statement does not rest on
// timing). When the first timer of the round becomes due all arm calls have returned, hence in
// every linearisation exactly one of them is the most recently armed one:
//   - at most one timeout is delivered in the round,
//   - none if a stop was called after all arm calls had returned.
// A timeout shows as one prolongation request written by the waiting server (as in TestC14).

// ArmRound is one round: the timers D (ms) are armed concurrently.
type ArmRound struct {
	D         []int `json:"d"`
	StopAlong bool  `json:"stopAlong,omitempty"` // a stop is called concurrently with the arm calls
	StopAfter bool  `json:"stopAfter,omitempty"` // a stop is called when all arm calls have returned
}

type ArmScript struct {
	Rounds []ArmRound `json:"rounds"`
}

func countProlongations(w *World) int {
	n := 0
	w.mu.Lock()
	for _, o := range w.log {
		if o.Side == Server && o.Kind == "write" && strings.Contains(o.Data, `"prolongationRequest":true`) {
			n++
		}
	}
	w.mu.Unlock()
	return n
}

// runArm returns key/msg; key "inconclusive" when the timing guard dropped a round. Every round has
// a connection of its own: a timeout that is delivered late (a loaded machine) can then only be
// missed, never be counted for another round.
func runArm(sc ArmScript) (key, msg string) {
	for ri, r := range sc.Rounds {
		if k, m := runArmRound(ri, r); k != "" {
			return k, m
		}
	}
	return "", ""
}

func runArmRound(ri int, r ArmRound) (key, msg string) {
	realCaseNo.Lock()
	realCaseNo.n++
	suffix := fmt.Sprintf("-a%d", realCaseNo.n)
	realCaseNo.Unlock()
	cfg := Config{AllowWaiting: [2]bool{true, true}, LocalID: [2]string{"c", "s"}}
	w := newWorldSKI(cfg, suffix)
	w.conn[Server].Run()
	w.conn[Client].Run()
	deadline := time.Now().Add(2 * time.Second)
	for w.qlen(Server) == 0 && time.Now().Before(deadline) {
		time.Sleep(time.Millisecond)
	}
	m, ok := w.pop(Server)
	if !ok {
		return "inconclusive", "no init frame"
	}
	w.deliver(Server, m) // init -> server in pending listen, 60 s timer armed
	for w.state(Server) != 11 && time.Now().Before(deadline) {
		time.Sleep(time.Millisecond)
	}
	if st := w.state(Server); st != 11 {
		return "inconclusive", fmt.Sprintf("server not in pending listen but %d", st)
	}
	defer func() {
		w.mu.Lock()
		w.allow = [2]bool{}
		w.mu.Unlock()
		w.conn[Server].VerifStopTimer()
		w.conn[Server].CloseConnection(false, 0, "")
		w.conn[Client].CloseConnection(false, 0, "")
	}()
	before := countProlongations(w)
	minD, maxD := r.D[0], r.D[0]
	for _, d := range r.D {
		if d < minD {
			minD = d
		}
		if d > maxD {
			maxD = d
		}
	}
	release := make(chan struct{})
	var wg, ready sync.WaitGroup
	for _, d := range r.D {
		wg.Add(1)
		ready.Add(1)
		go func(d int) {
			defer wg.Done()
			ready.Done()
			<-release
			w.conn[Server].VerifArmTimer(0, time.Duration(d)*time.Millisecond)
		}(d)
	}
	if r.StopAlong {
		wg.Add(1)
		ready.Add(1)
		go func() {
			defer wg.Done()
			ready.Done()
			<-release
			w.conn[Server].VerifStopTimer()
		}()
	}
	ready.Wait()
	start := time.Now()
	close(release)
	wg.Wait()
	if r.StopAfter {
		w.conn[Server].VerifStopTimer()
	}
	if took := time.Since(start); took > time.Duration(minD-10)*time.Millisecond {
		return "inconclusive", fmt.Sprintf("round %d: the operations took %v, shortest timer %d ms", ri, took, minD)
	}
	time.Sleep(time.Duration(maxD+60) * time.Millisecond)
	got := countProlongations(w) - before
	if r.StopAfter && got > 0 {
		return "C14/stale-timeout", fmt.Sprintf("round %d: %d timeout(s) delivered although the timer was stopped after the timers %v ms had been armed (concurrently) and before any of them was due", ri, got, r.D)
	}
	if got > 1 {
		return "C14/stale-timeout", fmt.Sprintf("round %d: %d timeouts delivered after the timers %v ms were armed concurrently; only the most recently armed one may deliver", ri, got, r.D)
	}
	return "", ""
}

func judgeArm(sc ArmScript) (key, msg string) {
	type res struct{ k, m string }
	done := make(chan res, 1)
	go func() {
		defer func() {
			if r := recover(); r != nil {
				done <- res{"C14/panic", fmt.Sprint(r)}
			}
		}()
		k, m := runArm(sc)
		done <- res{k, m}
	}()
	select {
	case r := <-done:
		return r.k, r.m
	case <-time.After(30 * time.Second):
		return "inconclusive", "case still running after 30 s"
	}
}

func genArm(t *rapid.T) ArmScript {
	var sc ArmScript
	for i, n := 0, rapid.IntRange(1, 4).Draw(t, "rounds"); i < n; i++ {
		r := ArmRound{}
		for j, k := 0, rapid.IntRange(1, 4).Draw(t, "timers"); j < k; j++ {
			r.D = append(r.D, rapid.SampledFrom([]int{40, 40, 55, 70, 90}).Draw(t, "ms"))
		}
		switch rapid.IntRange(0, 4).Draw(t, "stop") {
		case 0:
			r.StopAlong = true
		case 1:
			r.StopAfter = true
		}
		sc.Rounds = append(sc.Rounds, r)
	}
	return sc
}

// TestC14Real — timers armed and stopped by concurrent callers: never more than one timeout, none after a stop.
func TestC14Real(t *testing.T) {
	st := core.Begin(t, "C14", "shipsim")
	defer st.End()
	batch := core.EnvInt("VERIF_BATCH", 24)
	rapid.Check(t, func(rt *rapid.T) {
		scs := make([]ArmScript, batch)
		for i := range scs {
			scs[i] = genArm(rt)
		}
		keys, msgs := make([]string, batch), make([]string, batch)
		var wg sync.WaitGroup
		for i := range scs {
			wg.Add(1)
			go func(i int) {
				defer wg.Done()
				core.Journal(scs[i])
				keys[i], msgs[i] = judgeArm(scs[i])
			}(i)
		}
		wg.Wait()
		for i := range scs {
			if keys[i] == "inconclusive" {
				st.AddInconclusive()
				continue
			}
			conc, stop := false, false
			for _, r := range scs[i].Rounds {
				if len(r.D) > 1 {
					conc = true
				}
				if r.StopAfter || r.StopAlong {
					stop = true
				}
			}
			st.Case(scs[i], conc, "real-time", "with-stop:"+b2s(stop))
			if keys[i] != "" {
				st.Fail(keys[i], msgs[i], scs[i])
				rt.Fatalf("%s: %s", keys[i], msgs[i])
			}
		}
	})
}

func replayArm(raw json.RawMessage) (string, string) {
	var sc ArmScript
	if err := json.Unmarshal(raw, &sc); err != nil {
		return "harness", err.Error()
	}
	// twenty executions side by side (the schedule is not part of the script)
	keys, msgs := make([]string, 20), make([]string, 20)
	var wg sync.WaitGroup
	for i := range keys {
		wg.Add(1)
		go func(i int) {
			defer wg.Done()
			keys[i], msgs[i] = judgeArm(sc)
		}(i)
	}
	wg.Wait()
	for i, k := range keys {
		if k != "" && k != "inconclusive" {
			return k, msgs[i]
		}
	}
	return "", ""
}
