package shipsim

import (
	"fmt"
	"strings"
	"testing"

	"pgregory.net/rapid"

	"verifharness/core"
	"verifharness/jsonrt"
)

// ---- C06a ---------------------------------------------------------------------

var profData = Profile{
	Kinds:     kinds(EvStep, 10, EvDeliver, 4, EvDrain, 1, EvBurst, 4, "data", 8, EvSpineWrite, 6, EvApprove, 2, EvAdvance, 1, EvDup, 0),
	MinEvents: 4, MaxEvents: 40, Prefix: 16, Trust: []string{"paired", "auto", "none", "none"},
}

func isDataFrame(frame string) bool {
	return len(frame) > 1 && frame[0] == 2 && strings.Contains(frame, `"msgCounter"`)
}

// payloadOfFrame extracts the expected payload (plain JSON tree) of a data
// frame built by MsgData/SpinePayload or by the library from SpinePayload.
func payloadOfFrame(frame string) *jsonrt.Node {
	var src string
	var n int
	i := strings.Index(frame, `"src":"`)
	j := strings.Index(frame, `"msgCounter":`)
	if i < 0 || j < 0 {
		return nil
	}
	src = frame[i+7:]
	src = src[:strings.Index(src, `"`)]
	fmt.Sscanf(frame[j+13:], "%d", &n)
	side := Client
	if src == "server" {
		side = Server
	}
	node, _ := jsonrt.Parse(SpinePayload(side, n))
	return node
}

func monitorC06(tr *Trace) (key, msg string) {
	f := facts(tr)
	for s := 0; s < 2; s++ {
		var want []*jsonrt.Node
		var wantIdx []int
		for _, i := range f.Arrive[s] {
			if isDataFrame(tr.Log[i].Data) {
				want = append(want, payloadOfFrame(tr.Log[i].Data))
				wantIdx = append(wantIdx, i)
			}
		}
		got := f.Payloads[s]
		if !f.completed(tr, s) {
			if len(got) > 0 {
				return "C06/delivered-before-completion", fmt.Sprintf("%s never completed but delivered %s", sideName[s], describe(tr.Log[got[0]]))
			}
			continue
		}
		completeAt := -1
		for _, i := range f.States[s] {
			if tr.Log[i].State == stComplete {
				completeAt = i
				break
			}
		}
		for k, i := range got {
			if i < completeAt {
				return "C06/delivered-before-completion", fmt.Sprintf("%s delivered a payload before it reported completion: %s", sideName[s], describe(tr.Log[i]))
			}
			if k >= len(want) {
				return "C06/duplicate-or-invented", fmt.Sprintf("%s delivered %d payloads but only %d data frames arrived; extra: %s", sideName[s], len(got), len(want), describe(tr.Log[i]))
			}
			node, err := jsonrt.Parse([]byte(tr.Log[i].Data))
			if err != nil || want[k] == nil || !jsonrt.Equal(node, want[k]) {
				return "C06/order-or-content", fmt.Sprintf("%s: delivery #%d is %s but arrival #%d was %s", sideName[s], k, describe(tr.Log[i]), k, describe(tr.Log[wantIdx[k]]))
			}
		}
		if len(got) < len(want) {
			return "C06/dropped", fmt.Sprintf("%s completed, %d data frames arrived while its connection was open, but only %d were delivered; first missing: %s",
				sideName[s], len(want), len(got), describe(tr.Log[wantIdx[len(got)]]))
		}
	}
	return "", ""
}

// TestC06 — SPINE payloads: exactly once, in order, only after completion (ship level).
func TestC06(t *testing.T) {
	st := core.Begin(t, "C06", "shipsim")
	defer st.End()
	rapid.Check(t, func(rt *rapid.T) {
		sc := genScript(rt, profData)
		if rapid.IntRange(0, 5).Draw(rt, "flood") == 0 {
			// many datagrams reach one side before its handshake is over
			side := rapid.IntRange(0, 1).Draw(rt, "floodSide")
			at := rapid.IntRange(0, min(len(sc.Events), 6)).Draw(rt, "floodAt")
			var flood []Event
			for i, n := 0, rapid.IntRange(17, 48).Draw(rt, "floodN"); i < n; i++ {
				m := MsgData(SpinePayload(1-side, 2000+i))
				flood = append(flood, Event{K: EvInject, S: side, N: 2000 + i, M: m, T: show(m)})
			}
			sc.Events = append(sc.Events[:at:at], append(flood, sc.Events[at:]...)...)
		}
		tr := execute(t, sc)
		if tr.Inconclusive != "" {
			st.AddInconclusive()
			return
		}
		if foreign(st, tr, "C06") {
			return
		}
		f := facts(tr)
		key, msg := monitorC06(tr)
		// non-trivial: >= 2 data frames arrived at a side before it completed, and it completed
		nt := false
		early := 0
		for s := 0; s < 2; s++ {
			if !f.completed(tr, s) {
				continue
			}
			n := 0
			for _, i := range f.Arrive[s] {
				if isDataFrame(tr.Log[i].Data) && f.lastStateBefore(tr, s, i) != stComplete {
					n++
				}
			}
			if n >= 2 {
				nt = true
			}
			early += n
		}
		st.Case(sc, nt, fmt.Sprintf("buffered-frames:%d", min(early, 5)), fmt.Sprintf("completed:%v", f.completed(tr, 0) && f.completed(tr, 1)))
		st.AddSkipped(tr.Skipped)
		if key != "" {
			st.Fail(key, msg, sc)
			rt.Fatalf("%s: %s", key, msg)
		}
	})
}

// ---- C09 ----------------------------------------------------------------------

// accessFrame classifies a frame: "" (other), "request", or "reply" with the
// JSON kind and value of its id member, read from the EEBUS wire form with the
// harness' own parser.
func accessFrame(frame string) (kind string, idIsString bool, id string) {
	if len(frame) < 2 || frame[0] != 1 {
		return "", false, ""
	}
	n, err := jsonrt.Parse([]byte(frame[1:]))
	if err != nil || n.K != jsonrt.KObj || len(n.Keys) != 1 {
		return "", false, ""
	}
	switch n.Keys[0] {
	case "accessMethodsRequest":
		return "request", false, ""
	case "accessMethods":
		v := n.Vals[0]
		if v.K == jsonrt.KArr {
			for _, m := range v.Vals {
				if m.K == jsonrt.KObj && len(m.Keys) == 1 && m.Keys[0] == "id" {
					if m.Vals[0].K == jsonrt.KStr {
						return "reply", true, m.Vals[0].S
					}
					return "reply", false, ""
				}
			}
		}
		return "reply", false, ""
	}
	return "", false, ""
}

// canonicalAccessReply: the frame is {"accessMethods":[{"id":"..."}]} in the
// compact EEBUS form (exactly one single-member object, no blanks between
// tokens, no trailing bytes) - what every SHIP implementation sends.
func canonicalAccessReply(frame string) bool {
	if len(frame) < 2 || frame[0] != 1 {
		return false
	}
	body := frame[1:]
	n, err := jsonrt.Parse([]byte(body))
	if err != nil || n.K != jsonrt.KObj || len(n.Keys) != 1 || n.Keys[0] != "accessMethods" {
		return false
	}
	v := n.Vals[0]
	if v.K != jsonrt.KArr || len(v.Vals) != 1 {
		return false
	}
	m := v.Vals[0]
	if m.K != jsonrt.KObj || len(m.Keys) != 1 || m.Keys[0] != "id" || m.Vals[0].K != jsonrt.KStr {
		return false
	}
	// no blanks outside of string literals
	in := false
	for i := 0; i < len(body); i++ {
		c := body[i]
		switch {
		case in && c == '\\':
			i++
		case c == '"':
			in = !in
		case !in && (c == ' ' || c == '\t' || c == '\n' || c == '\r' || c == 0):
			return false
		}
	}
	return true
}

func monitorC09(tr *Trace) (key, msg string) {
	f := facts(tr)
	for s := 0; s < 2; s++ {
		stored := tr.Script.Cfg.StoredID[s]
		// the first access methods reply that arrives while s waits in the access methods state decides
		decided := -1
		var isStr bool
		var id string
		for _, i := range f.Arrive[s] {
			if f.lastStateBefore(tr, s, i) != stAccessRequest {
				continue
			}
			k, str, v := accessFrame(tr.Log[i].Data)
			if k == "request" {
				continue
			}
			if k == "reply" {
				decided, isStr, id = i, str, v
			}
			break // anything else in this state ends the handshake (not judged here)
		}
		if decided < 0 {
			continue
		}
		setupsAfter := 0
		for _, i := range f.Setups[s] {
			if i > decided {
				setupsAfter++
			}
		}
		match := isStr && (stored == "" || id == stored)
		if !match {
			if len(f.Setups[s]) > 0 {
				return "C09/setup-despite-mismatch", fmt.Sprintf("%s (stored SHIP ID %q) set up the remote device although the peer presented %s", sideName[s], stored, describe(tr.Log[decided]))
			}
			if f.completed(tr, s) {
				return "C09/complete-despite-mismatch", fmt.Sprintf("%s (stored SHIP ID %q) completed although the peer presented %s", sideName[s], stored, describe(tr.Log[decided]))
			}
			if st := f.lastStateBefore(tr, s, len(tr.Log)); st != stError {
				return "C09/no-error-on-mismatch", fmt.Sprintf("%s (stored %q) is in state %d, not error, after %s", sideName[s], stored, st, describe(tr.Log[decided]))
			}
			if !tr.Stable[s].TrClosed {
				return "C09/open-after-mismatch", fmt.Sprintf("%s did not close the connection after a SHIP ID mismatch", sideName[s])
			}
			if len(f.ShipIDs[s]) > 0 {
				return "C09/report-on-mismatch", fmt.Sprintf("%s reported a SHIP ID although the handshake failed: %s", sideName[s], describe(tr.Log[f.ShipIDs[s][0]]))
			}
			continue
		}
		// match. The completion clause is only asserted for the compact spelling
		// every SHIP implementation sends; a reply with blanks between tokens
		// (from the hostile traffic) may be refused, which is on the safe side.
		canonical := canonicalAccessReply(tr.Log[decided].Data)
		if !canonical && !f.completed(tr, s) && len(f.Setups[s]) == 0 {
			continue
		}
		if len(f.Setups[s]) != 1 || !f.completed(tr, s) {
			return "C09/not-completed-on-match", fmt.Sprintf("%s (stored %q) got the matching id %q but setups=%d completed=%v", sideName[s], stored, id, len(f.Setups[s]), f.completed(tr, s))
		}
		if stored != "" {
			if len(f.ShipIDs[s]) != 0 {
				return "C09/report-of-known-id", fmt.Sprintf("%s knew the SHIP ID %q but reported %s", sideName[s], stored, describe(tr.Log[f.ShipIDs[s][0]]))
			}
		} else {
			if len(f.ShipIDs[s]) != 1 {
				return "C09/report-count", fmt.Sprintf("%s learned SHIP ID %q but reported it %d times", sideName[s], id, len(f.ShipIDs[s]))
			}
			r := f.ShipIDs[s][0]
			if tr.Log[r].Data != id {
				return "C09/report-value", fmt.Sprintf("%s reported %q but the peer presented %q", sideName[s], tr.Log[r].Data, id)
			}
			if r > f.Setups[s][0] {
				return "C09/report-after-setup", fmt.Sprintf("%s reported the SHIP ID after SetupRemoteDevice", sideName[s])
			}
		}
	}
	return "", ""
}

func jsonString(s string) string { return string(jsonrt.Encode(&jsonrt.Node{K: jsonrt.KStr, S: s}, 0)) }

func genC09(t *rapid.T) (Script, bool) {
	var c Config
	c.Paired[Server] = true
	c.Paired[Client] = true
	c.AllowWaiting = [2]bool{true, true}
	ids := [2]string{genID(t, "idC", true), genID(t, "idS", true)}
	c.LocalID = ids
	variantClass := false
	variant := func(base string, label string) string {
		switch rapid.IntRange(0, 7).Draw(t, label) {
		case 0:
			return base + "x"
		case 1:
			if len(base) > 0 {
				return base[:len(base)-1]
			}
			return "y"
		case 2:
			return "x" + base
		case 3:
			return strings.ToUpper(base) + strings.ToLower(base)
		case 4:
			return strings.ToUpper(base)
		case 5:
			return " " + base
		default:
			return genID(t, label+"other", true)
		}
	}
	for s := 0; s < 2; s++ {
		switch rapid.IntRange(0, 3).Draw(t, "stored") {
		case 0: // unknown
		case 1, 2: // known and correct
			c.StoredID[s] = ids[1-s]
		case 3: // known, the peer presents something else
			c.StoredID[s] = variant(ids[1-s], "storedVariant")
			variantClass = true
		}
	}
	sc := Script{Cfg: c, Settle: true}
	sc.Events = append(sc.Events, Event{K: EvUntilAccess})
	n := rapid.IntRange(1, 8).Draw(t, "nAccess")
	replyFirst := false
	seenRequest := [2]bool{}
	for i := 0; i < n; i++ {
		s := rapid.IntRange(0, 1).Draw(t, "side")
		switch rapid.IntRange(0, 7).Draw(t, "accessEv") {
		case 0, 1:
			sc.Events = append(sc.Events, Event{K: EvDeliver, S: s})
			seenRequest[s] = true
		case 2:
			sc.Events = append(sc.Events, Event{K: EvDrop, S: s})
		case 3:
			m := MsgAccessRequest()
			sc.Events = append(sc.Events, Event{K: EvInject, S: s, M: m, T: show(m)})
			seenRequest[s] = true
		default:
			var idJSON string
			switch rapid.IntRange(0, 9).Draw(t, "idKind") {
			case 0, 1, 2:
				idJSON = jsonString(ids[1-s])
			case 3, 4:
				idJSON = jsonString(variant(ids[1-s], "presentedVariant"))
				variantClass = true
			case 5:
				idJSON = ""
			case 6:
				idJSON = "null"
			case 7:
				idJSON = rapid.SampledFrom([]string{"17", "true", `[{"x":1}]`, `[]`, `["a"]`}).Draw(t, "illTyped")
			case 8:
				idJSON = `""`
			default:
				idJSON = jsonString(c.StoredID[s])
			}
			m := MsgAccessMethods(idJSON)
			sc.Events = append(sc.Events, Event{K: EvInject, S: s, M: m, T: show(m), Reason: idJSON})
			if !seenRequest[s] {
				replyFirst = true
			}
		}
	}
	// further traffic after the verdict
	p := profAdversarial
	p.Prefix = 0
	for i, m := 0, rapid.IntRange(0, 6).Draw(t, "after"); i < m; i++ {
		sc.Events = append(sc.Events, genEvent(t, p))
	}
	return sc, variantClass || replyFirst
}

// TestC09 — a known SHIP ID is pinned; a new one is reported once, before setup.
func TestC09(t *testing.T) {
	st := core.Begin(t, "C09", "shipsim")
	defer st.End()
	rapid.Check(t, func(rt *rapid.T) {
		sc, nt := genC09(rt)
		tr := execute(t, sc)
		if tr.Inconclusive != "" {
			st.AddInconclusive()
			return
		}
		if foreign(st, tr, "C09") {
			return
		}
		reached := len(tr.Steps) > 0 && tr.Steps[0].Executed
		key, msg := monitorC09(tr)
		st.Case(sc, nt && reached, fmt.Sprintf("reached-access-phase:%v", reached))
		st.AddSkipped(tr.Skipped)
		if key != "" {
			st.Fail(key, msg, sc)
			rt.Fatalf("%s: %s", key, msg)
		}
	})
}
