package shipsim

import (
	"fmt"
	"strings"
	"testing"

	"pgregory.net/rapid"

	"verifharness/core"
)

// monitorC03 judges a two-endpoint run at stability (after settle).
func monitorC03(tr *Trace) (key, msg string) {
	f := facts(tr)
	cfg := tr.Script.Cfg
	complete := [2]bool{f.completed(tr, Client), f.completed(tr, Server)}
	// --- clause 2: no trust / effective cancel => neither side ever completes
	trustGiven := f.Granted[Server] >= 0
	// trusted from the start (paired or auto accept, never changed): trust is given whether or not the
	// server ever got as far as asking for it
	trustBeforehand := (cfg.Paired[Server] || cfg.AutoAccept[Server]) && approveNotNeeded(tr, f)
	for _, st := range tr.Steps {
		if st.Executed && st.Ev.K == EvCancel {
			trustBeforehand = false // a cancel withdraws the trust, whatever state the connection is in
		}
	}
	cancelled := false
	for s := 0; s < 2; s++ {
		if c := f.Cancelled[s]; c >= 0 && !trustedState(f.lastStateBefore(tr, s, c)) {
			cancelled = true
		}
	}
	if !trustGiven || cancelled {
		for s := 0; s < 2; s++ {
			if complete[s] {
				why := "the server side never trusted the client"
				if cancelled {
					why = "the pairing was cancelled"
				}
				return "C03/complete-without-trust", fmt.Sprintf("%s completed although %s", sideName[s], why)
			}
		}
	}
	// --- clause 3: the two sides never disagree for good
	open := [2]bool{!tr.Stable[0].TrClosed, !tr.Stable[1].TrClosed}
	bothDone := complete[0] && complete[1] && open[0] && open[1] && tr.Stable[0].State == stComplete && tr.Stable[1].State == stComplete
	bothEnded := !open[0] && !open[1]
	if !bothDone && !bothEnded {
		return "C03/disagree", fmt.Sprintf("at stability (%d rounds): client state %d transport open=%v completed=%v; server state %d transport open=%v completed=%v",
			tr.SettleRounds, tr.Stable[0].State, open[0], complete[0], tr.Stable[1].State, open[1], complete[1])
	}
	// --- clause 1: timely + trust (+ waiting allowed where a side has to wait) => both complete, exactly once
	if tr.Script.Timely && !cancelled && ((trustGiven && expectCompletion(tr, f)) || (trustBeforehand && f.Cancelled[Client] < 0 && f.Cancelled[Server] < 0)) {
		if !bothDone {
			return "C03/not-completed", fmt.Sprintf("trust was given and all messages were delivered in time, but: client state %d (completed=%v), server state %d (completed=%v); first error: %s",
				tr.Stable[0].State, complete[0], tr.Stable[1].State, complete[1], firstError(tr))
		}
		for s := 0; s < 2; s++ {
			if n := len(f.Setups[s]); n != 1 {
				return "C03/setup-count", fmt.Sprintf("%s set up the remote device %d times", sideName[s], n)
			}
			wantReports := 0
			if cfg.StoredID[s] == "" {
				wantReports = 1
			}
			if n := len(f.ShipIDs[s]); n != wantReports {
				return "C03/shipid-reports", fmt.Sprintf("%s reported the peer's SHIP ID %d times, expected %d (stored id %q)", sideName[s], n, wantReports, cfg.StoredID[s])
			}
			if wantReports == 1 {
				if got := tr.Log[f.ShipIDs[s][0]].Data; got != cfg.LocalID[1-s] {
					return "C03/shipid-value", fmt.Sprintf("%s learned SHIP ID %q but the peer's is %q", sideName[s], got, cfg.LocalID[1-s])
				}
			}
		}
	}
	return "", ""
}

// expectCompletion: the run is one in which the statement promises completion.
// The user approval must have come while nobody had given up waiting:
//   - the server allows waiting for trust (otherwise it aborts at once),
//   - the client allows waiting, or the approval came before the client's 60 s
//     wait-for-ready timer could run out.
func expectCompletion(tr *Trace, f *Facts) bool {
	cfg := tr.Script.Cfg
	if cfg.Paired[Server] || cfg.AutoAccept[Server] {
		return f.Granted[Server] >= 0 && tr.Log[f.Granted[Server]].Kind == "trust" && approveNotNeeded(tr, f)
	}
	g := f.Granted[Server]
	if g < 0 {
		return false
	}
	if tr.Log[g].Kind == "trust" {
		// approved before the hello phase started: same as trusted beforehand
		return approveNotNeeded(tr, f)
	}
	if !cfg.AllowWaiting[Server] {
		return false
	}
	clientWaits := cfg.Paired[Client] || cfg.AllowWaiting[Client]
	if !clientWaits && tr.Log[g].At >= int64(55e9) {
		return false
	}
	// flips of the waiting/trust answers during the run make the promise void
	for _, st := range tr.Steps {
		if st.Executed && (st.Ev.K == EvSetAllow || st.Ev.K == EvSetPaired || st.Ev.K == EvSetAuto) {
			return false
		}
	}
	return true
}

func approveNotNeeded(tr *Trace, f *Facts) bool {
	for _, st := range tr.Steps {
		if st.Executed && (st.Ev.K == EvSetAllow || st.Ev.K == EvSetPaired || st.Ev.K == EvSetAuto) {
			return false
		}
	}
	return true
}

func firstError(tr *Trace) string {
	for _, o := range tr.Log {
		if o.Kind == "state" && o.Err != "" {
			return describe(o)
		}
	}
	return "(none)"
}

// genC03 draws a scheduling-only script. timely: deliveries/user actions in
// any order, time passes only through "advance" (during which frames are
// delivered promptly) and in the final settle phase.
func genC03(t *rapid.T, timely bool) Script {
	p := profSchedule
	if timely {
		p.Kinds = kinds(EvStep, 10, EvDeliver, 6, EvDrain, 2, EvAdvance, 4, EvApprove, 2, EvCancel, 1)
	}
	if core.Excluded(KeyDatagramRouting) {
		p.HostileIDs = false
	}
	sc := genScript(t, p)
	sc.Settle = true
	sc.Timely = timely
	if core.Excluded(KeyDatagramRouting) {
		// hostile IDs minus the excluded region
		for s := 0; s < 2; s++ {
			if rapid.Bool().Draw(t, "hostileID") {
				id := genID(t, "hid", true)
				id = strings.ReplaceAll(id, "datagram", "data-gram")
				if sc.Cfg.StoredID[1-s] == sc.Cfg.LocalID[s] && sc.Cfg.StoredID[1-s] != "" {
					sc.Cfg.StoredID[1-s] = id
				}
				sc.Cfg.LocalID[s] = id
			}
		}
	}
	return sc
}

func runC03(t *testing.T, timely bool) {
	st := core.Begin(t, "C03", "shipsim")
	defer st.End()
	exclApprove := core.Excluded(KeyApproveInFlight)
	rapid.Check(t, func(rt *rapid.T) {
		sc := genC03(rt, timely)
		tr := execute(t, sc)
		if tr.Inconclusive != "" {
			st.AddInconclusive()
			return
		}
		if foreign(st, tr, "C03") {
			return
		}
		f := facts(tr)
		// known finding: an approval given while a hello message of the peer is
		// still in flight jumps to hello-ok too early; such runs are judged
		// without the completion clause
		inflight := false
		for _, s := range tr.Steps {
			if s.Executed && s.Ev.K == EvApprove && s.Before[Server].State == stPendingListen &&
				(s.Before[Server].QueueLen > 0 || s.Before[Client].QueueLen > 0) {
				inflight = true
			}
		}
		key, msg := monitorC03(tr)
		if exclApprove && inflight && (key == "C03/not-completed") {
			st.AddExcluded(KeyApproveInFlight, 1)
			key, msg = "", ""
		}
		// non-trivial: a user action, time advance or close propagation strictly between the first and the last delivery
		first, last := -1, -1
		for i, s := range tr.Steps {
			if s.Executed && (s.Ev.K == EvDeliver || s.Ev.K == EvStep || s.Ev.K == EvDrain) {
				if first < 0 {
					first = i
				}
				last = i
			}
		}
		nt := false
		for i, s := range tr.Steps {
			if i > first && i < last && s.Executed && (s.Ev.K == EvApprove || s.Ev.K == EvCancel || s.Ev.K == EvAdvance || s.Ev.K == EvPropagate) {
				nt = true
			}
		}
		outcome := "outcome:ended"
		if f.completed(tr, Client) && f.completed(tr, Server) {
			outcome = "outcome:both-complete"
		}
		st.Case(sc, nt, outcome, fmt.Sprintf("timely:%v", timely), fmt.Sprintf("approve-in-flight:%v", inflight))
		st.AddSkipped(tr.Skipped)
		if key != "" {
			if key == "C03/not-completed" && inflight {
				key = KeyApproveInFlight
			}
			st.Fail(key, msg, sc)
			rt.Fatalf("%s: %s", key, msg)
		}
	})
}

// TestC03Timely — messages are prompt, the user may take any time.
func TestC03Timely(t *testing.T) { runC03(t, true) }

// TestC03Arbitrary — arbitrary delays and timer expiries: the sides never disagree for good.
func TestC03Arbitrary(t *testing.T) { runC03(t, false) }

func replayC03(tr *Trace) (string, string) {
	key, msg := monitorC03(tr)
	if key == "C03/not-completed" {
		for _, s := range tr.Steps {
			if s.Executed && s.Ev.K == EvApprove && s.Before[Server].State == stPendingListen &&
				(s.Before[Server].QueueLen > 0 || s.Before[Client].QueueLen > 0) {
				key = KeyApproveInFlight
			}
		}
	}
	return key, msg
}
