package shipsim

import (
	"encoding/json"
	"fmt"
	"strings"
	"testing"
	"testing/synctest"
	"time"

	"pgregory.net/rapid"

	"verifharness/core"
)

// TimerOp is one step of a C14 script.
type TimerOp struct {
	K string `json:"k"` // arm | stop | advance
	D int64  `json:"d,omitempty"`
}

type TimerScript struct {
	Ops []TimerOp `json:"ops"`
}

const helloInit = int64(60 * time.Second)

// runTimers executes a C14 script on a server-role connection sitting in
// "pending listen" with waiting allowed: every timeout that the connection
// receives shows as exactly one prolongation request frame, after which the
// library itself arms a 60 s reply timer. Returns observed and modelled
// timeout instants (virtual ns).
func runTimers(sc TimerScript) (observed, modelled []int64, err string) {
	cfg := Config{AllowWaiting: [2]bool{true, true}, LocalID: [2]string{"c", "s"}}
	w := NewWorld(cfg)
	w.conn[Server].Run()
	w.conn[Client].Run()
	synctest.Wait()
	m, _ := w.pop(Server)
	w.deliver(Server, m) // init -> server enters pending listen, 60 s timer armed
	synctest.Wait()
	if st := w.snap(Server).State; st != 11 {
		return nil, nil, fmt.Sprintf("harness: server not in pending listen but %d", st)
	}
	now := int64(0)
	live := helloInit // expiry of the only live timer, -1 = none
	advance := func(x int64) {
		if x > 0 {
			time.Sleep(time.Duration(x))
		}
		synctest.Wait()
		end := now + x
		for live >= 0 && live <= end {
			modelled = append(modelled, live)
			live += helloInit // the library arms the prolongation reply timer
		}
		now = end
	}
	for _, op := range sc.Ops {
		switch op.K {
		case "arm":
			w.conn[Server].VerifArmTimer(0, time.Duration(op.D))
			live = now + op.D
		case "stop":
			w.conn[Server].VerifStopTimer()
			live = -1
		case "advance":
			advance(op.D)
		}
	}
	// stop whatever is armed, then let more than two full timer periods pass:
	// nothing may fire any more
	w.conn[Server].VerifStopTimer()
	live = -1
	advance(3 * helloInit)
	w.mu.Lock()
	for _, o := range w.log {
		if o.Side == Server && o.Kind == "write" && strings.Contains(o.Data, `"prolongationRequest":true`) {
			observed = append(observed, o.At)
		}
	}
	w.allow = [2]bool{}
	w.mu.Unlock()
	w.conn[Server].CloseConnection(false, 0, "")
	w.conn[Client].CloseConnection(false, 0, "")
	time.Sleep(10 * time.Minute)
	return observed, modelled, ""
}

func judgeTimers(t *testing.T, sc TimerScript) (key, msg string) {
	var obs, mod []int64
	var herr string
	if err := core.Bubble(t, func() { obs, mod, herr = runTimers(sc) }); err != nil {
		if core.IsInconclusive(err) {
			return "inconclusive", err.Error()
		}
		return "C14/bubble", err.Error()
	}
	if herr != "" {
		return "harness", herr
	}
	if len(obs) > len(mod) {
		return "C14/stale-timeout", fmt.Sprintf("timeouts delivered at %v (virtual ns) but only %v are due to the most recently armed, not stopped timer", obs, mod)
	}
	if len(obs) < len(mod) {
		return "C14/missing-timeout", fmt.Sprintf("timeouts delivered at %v but the live timer was due at %v", obs, mod)
	}
	for i := range obs {
		if obs[i] != mod[i] {
			return "C14/wrong-instant", fmt.Sprintf("timeouts delivered at %v, modelled %v", obs, mod)
		}
	}
	return "", ""
}

var timerDurations = []int64{1, int64(time.Millisecond), int64(time.Second), int64(10 * time.Second), int64(30 * time.Second), helloInit, 2 * helloInit}

func genTimerScript(t *rapid.T) TimerScript {
	n := rapid.IntRange(1, 14).Draw(t, "nops")
	var sc TimerScript
	last := int64(time.Second)
	for i := 0; i < n; i++ {
		switch rapid.IntRange(0, 9).Draw(t, "op") {
		case 0, 1, 2:
			d := rapid.SampledFrom(timerDurations).Draw(t, "d")
			if rapid.IntRange(0, 3).Draw(t, "odd") == 0 {
				d = rapid.Int64Range(1, 2*helloInit).Draw(t, "dd")
			}
			last = d
			sc.Ops = append(sc.Ops, TimerOp{K: "arm", D: d})
		case 3, 4, 5:
			sc.Ops = append(sc.Ops, TimerOp{K: "stop"})
		default:
			var x int64
			switch rapid.IntRange(0, 6).Draw(t, "adv") {
			case 0:
				x = 0
			case 1:
				x = 1
			case 2:
				x = last - 1
			case 3:
				x = last
			case 4:
				x = last + 1
			case 5:
				x = rapid.SampledFrom(timerDurations).Draw(t, "x")
			default:
				x = rapid.Int64Range(0, 3*helloInit).Draw(t, "xx")
			}
			if x < 0 {
				x = 0
			}
			sc.Ops = append(sc.Ops, TimerOp{K: "advance", D: x})
		}
	}
	return sc
}

// TestC14 — a stopped or replaced handshake timer never fires; the live one fires exactly once, on time.
func TestC14(t *testing.T) {
	st := core.Begin(t, "C14", "shipsim")
	defer st.End()
	rapid.Check(t, func(rt *rapid.T) {
		sc := genTimerScript(rt)
		key, msg := judgeTimers(t, sc)
		if key == "inconclusive" {
			st.AddInconclusive()
			return
		}
		// non-trivial: a stop or re-arm while a timer is armed; class: stop directly after arm
		nt, imm, armed := false, false, true
		for i, op := range sc.Ops {
			switch op.K {
			case "arm":
				if armed {
					nt = true
				}
				armed = true
			case "stop":
				if armed {
					nt = true
				}
				if i > 0 && sc.Ops[i-1].K == "arm" {
					imm = true
				}
				armed = false
			}
		}
		st.Case(sc, nt, "stop-directly-after-arm:"+b2s(imm))
		if key != "" {
			st.Fail(key, msg, sc)
			rt.Fatalf("%s: %s", key, msg)
		}
	})
}

func b2s(b bool) string {
	if b {
		return "yes"
	}
	return "no"
}

func replayC14(t *testing.T, raw json.RawMessage) (string, string) {
	var sc TimerScript
	if err := json.Unmarshal(raw, &sc); err != nil {
		return "harness", err.Error()
	}
	return judgeTimers(t, sc)
}
