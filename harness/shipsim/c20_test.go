package shipsim

import (
	"sync"
	"testing"
	"testing/synctest"
	"time"

	"pgregory.net/rapid"

	"verifharness/core"
)

// runStress issues the events of a script from three goroutines at once
// (deliveries, user actions / writes, time), without quiescence in between.
func runStress(sc Script) (panicked string) {
	w := NewWorld(sc.Cfg)
	w.conn[Server].Run()
	w.conn[Client].Run()
	var mu sync.Mutex
	guard := func(f func()) {
		defer func() {
			if r := recover(); r != nil {
				mu.Lock()
				panicked = "panic"
				mu.Unlock()
			}
		}()
		f()
	}
	var groups [3][]Event
	for _, ev := range sc.Events {
		switch ev.K {
		case EvDeliver, EvStep, EvDrain, EvInject, EvDrop, EvDup:
			groups[0] = append(groups[0], ev)
		case EvAdvance:
			groups[2] = append(groups[2], ev)
		default:
			groups[1] = append(groups[1], ev)
		}
	}
	var wg sync.WaitGroup
	for g := range groups {
		wg.Add(1)
		go func(evs []Event) {
			defer wg.Done()
			for _, ev := range evs {
				if ev.K == EvDrain || ev.K == EvUntilAccess {
					ev.K = EvStep // these wait for quiescence themselves
				}
				guard(func() { w.apply(ev); w.flushPendingReports() })
			}
		}(groups[g])
	}
	wg.Wait()
	synctest.Wait()
	w.mu.Lock()
	w.allow, w.paired = [2]bool{}, [2]bool{}
	w.mu.Unlock()
	guard(func() {
		w.conn[Client].CloseConnection(false, 0, "")
		w.conn[Server].CloseConnection(false, 0, "")
	})
	time.Sleep(10 * time.Minute)
	return panicked
}

// TestC20Stress — concurrent handlers, timers and user actions on two endpoints under the race detector.
func TestC20Stress(t *testing.T) {
	st := core.Begin(t, "C20", "shipsim")
	defer st.End()
	rapid.Check(t, func(rt *rapid.T) {
		sc := genScript(rt, profAdversarial)
		core.Journal(sc)
		var p string
		err := core.Bubble(t, func() { p = runStress(sc) })
		if err != nil {
			st.AddInconclusive() // wedges and leaks are judged by C08 / C04, not here
			return
		}
		_ = p
		st.Case(sc, len(sc.Events) >= 4, "stress")
	})
}
