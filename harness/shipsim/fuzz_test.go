package shipsim

import (
	"testing"
)

// FuzzShipMessage — coverage-guided search over (valid prefix length, trust,
// receiver, frame bytes): the real handshake runs for `prefix` deliveries, then
// the frame is handed to one side, then everything settles. Oracles: no panic,
// no wedge (C08), state graph and finality (C04), trust gate (C01), exactly-once
// close report (C11).
func FuzzShipMessage(f *testing.F) {
	seeds := [][]byte{MsgInit, MsgHello("ready", u64(60000), nil), MsgHello("pending", u64(60000), bp(true)), MsgHello("aborted", nil, nil),
		MsgProtocol("announceMax", 1, 0, `["JSON-UTF8"]`), MsgProtocol("select", 1, 0, `["JSON-UTF8"]`), MsgProtocol("select", 1, 0, `[ ]`),
		MsgProtocolError(2), MsgPin("none"), MsgPin("required"), MsgAccessRequest(), MsgAccessMethods(`"client-id"`), MsgAccessMethods(``),
		MsgClose("announce"), MsgClose("confirm"), MsgData(SpinePayload(0, 1)), {1, '{', '}'}, {2, 0}, {3, '[', ']'}}
	for i, s := range seeds {
		f.Add(uint8(i%20), uint8(i%3), i%2 == 0, s)
	}
	f.Fuzz(func(t *testing.T, prefix uint8, trust uint8, toServer bool, frame []byte) {
		if len(frame) < 2 || len(frame) > 4096 {
			t.Skip()
		}
		sc := Script{Settle: true}
		sc.Cfg.AllowWaiting = [2]bool{true, true}
		sc.Cfg.LocalID = [2]string{"client-id", "server-id"}
		switch trust % 3 {
		case 0:
			sc.Cfg.Paired[Server] = true
		case 1:
			sc.Cfg.AutoAccept[Server] = true
		}
		for i := 0; i < int(prefix%24); i++ {
			sc.Events = append(sc.Events, Event{K: EvStep, S: i % 2})
		}
		side := Client
		if toServer {
			side = Server
		}
		sc.Events = append(sc.Events, Event{K: EvInject, S: side, M: frame, T: show(frame)}, Event{K: EvDrain})
		tr := execute(t, sc)
		if tr.Inconclusive != "" {
			t.Skip()
		}
		for _, mon := range []monitor{monitorC08, monitorC04, monitorC01, monitorC11} {
			if key, msg := mon(tr); key != "" {
				t.Fatalf("%s: %s", key, msg)
			}
		}
	})
}
