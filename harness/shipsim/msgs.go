package shipsim

import (
	"fmt"
	"strings"

	"pgregory.net/rapid"

	"github.com/enbility/ship-go/ship"
	"verifharness/jsonrt"
)

// Well-formed SHIP messages in wire form (header byte + EEBUS JSON).

func ctl(body string) []byte { return append([]byte{1}, body...) }

var (
	MsgInit = []byte{0, 0}
)

func MsgHello(phase string, waiting *uint64, prolong *bool) []byte {
	parts := []string{}
	if phase != "\x00absent" {
		parts = append(parts, fmt.Sprintf(`{"phase":%q}`, phase))
	}
	if waiting != nil {
		parts = append(parts, fmt.Sprintf(`{"waiting":%d}`, *waiting))
	}
	if prolong != nil {
		parts = append(parts, fmt.Sprintf(`{"prolongationRequest":%v}`, *prolong))
	}
	return ctl(`{"connectionHello":[` + strings.Join(parts, ",") + `]}`)
}

func MsgProtocol(typ string, major, minor int, formats string) []byte {
	return ctl(fmt.Sprintf(`{"messageProtocolHandshake":[{"handshakeType":%q},{"version":[{"major":%d},{"minor":%d}]},{"formats":[{"format":%s}]}]}`,
		typ, major, minor, formats))
}

func MsgProtocolError(code int) []byte {
	return ctl(fmt.Sprintf(`{"messageProtocolHandshakeError":[{"error":%d}]}`, code))
}

func MsgPin(state string) []byte {
	return ctl(fmt.Sprintf(`{"connectionPinState":[{"pinState":%q}]}`, state))
}

func MsgAccessRequest() []byte { return ctl(`{"accessMethodsRequest":[]}`) }

// MsgAccessMethods with a raw JSON value for id ("" = member missing).
func MsgAccessMethods(idJSON string) []byte {
	if idJSON == "" {
		return ctl(`{"accessMethods":[]}`)
	}
	return ctl(`{"accessMethods":[{"id":` + idJSON + `}]}`)
}

func MsgClose(phase string) []byte {
	return append([]byte{3}, fmt.Sprintf(`{"connectionClose":[{"phase":%q}]}`, phase)...)
}

// MsgCloseFull: close message with maxTime and reason members.
func MsgCloseFull(phase string, maxTime uint64, reason string) []byte {
	return append([]byte{3}, fmt.Sprintf(`{"connectionClose":[{"phase":%q},{"maxTime":%d},{"reason":%q}]}`, phase, maxTime, reason)...)
}

// MsgData wraps a SPINE payload (plain JSON) into a SHIP data frame.
func MsgData(payload []byte) []byte {
	wire, err := ship.JsonIntoEEBUSJson(payload)
	if err != nil {
		wire = string(payload)
	}
	return append([]byte{2}, `{"data":[{"header":[{"protocolId":"ee1.0"}]},{"payload":`+wire+`}]}`...)
}

func u64(v uint64) *uint64 { return &v }
func bp(v bool) *bool      { return &v }

var waitingValues = []uint64{0, 1, 999, 1000, 1001, 29999, 30000, 30001, 59999, 60000, 66000, 1 << 32, 1 << 62, 1<<63 - 1}

// genWellFormed draws one message of the SHIP alphabet (well-formed JSON, any
// phase, any field combination).
func genWellFormed(t *rapid.T) []byte {
	switch rapid.IntRange(0, 11).Draw(t, "msgKind") {
	case 0:
		return rapid.SampledFrom([][]byte{{0, 0}, {0, 1}, {1, 0}, {0, 0, 0}, {2, 0}, {0, 0x7b}}).Draw(t, "init")
	case 1, 2, 3:
		phase := rapid.SampledFrom([]string{"ready", "pending", "aborted", "", "junk", "\x00absent"}).Draw(t, "phase")
		var wv *uint64
		if rapid.Bool().Draw(t, "hasWaiting") {
			wv = u64(rapid.SampledFrom(waitingValues).Draw(t, "waiting"))
		}
		var pr *bool
		if rapid.IntRange(0, 2).Draw(t, "hasProlong") == 0 {
			pr = bp(rapid.Bool().Draw(t, "prolong"))
		}
		return MsgHello(phase, wv, pr)
	case 4, 5:
		typ := rapid.SampledFrom([]string{"announceMax", "select", "junk", ""}).Draw(t, "hsType")
		major := rapid.SampledFrom([]int{1, 1, 1, 0, 2, 255}).Draw(t, "major")
		minor := rapid.SampledFrom([]int{0, 0, 0, 1, 255}).Draw(t, "minor")
		formats := rapid.SampledFrom([]string{`["JSON-UTF8"]`, `["JSON-UTF8"]`, `[]`, `[ ]`, `null`, `["JSON-UTF8","JSON-UTF16"]`, `["JSON-UTF16"]`, `[""]`}).Draw(t, "formats")
		return MsgProtocol(typ, major, minor, formats)
	case 6:
		return MsgProtocolError(rapid.IntRange(0, 4).Draw(t, "perr"))
	case 7:
		return MsgPin(rapid.SampledFrom([]string{"none", "none", "required", "optional", "pinOk", "junk", ""}).Draw(t, "pin"))
	case 8:
		return MsgAccessRequest()
	case 9:
		id := rapid.SampledFrom([]string{`"client-id"`, `"server-id"`, `"other"`, `""`, ``, `null`, `17`, `[{"x":1}]`, `true`, `"a\\b\"c\u0041\\"`}).Draw(t, "amid")
		return MsgAccessMethods(id)
	case 10:
		phase := rapid.SampledFrom([]string{"announce", "confirm", "junk", ""}).Draw(t, "closePhase")
		if rapid.Bool().Draw(t, "closeFull") {
			return MsgCloseFull(phase, rapid.SampledFrom([]uint64{0, 1, 499, 500, 501, 60000, 4294967295, 1 << 40}).Draw(t, "maxTime"),
				rapid.SampledFrom([]string{"unspecific", "removedConnection", "", "datagram"}).Draw(t, "closeReason"))
		}
		return MsgClose(phase)
	default:
		return MsgData(SpinePayload(rapid.IntRange(0, 1).Draw(t, "dside"), 1000+rapid.IntRange(0, 50).Draw(t, "dn")))
	}
}

var hostileTokens = []string{`\`, `"\`, `"a\`, `\u`, `"\u00`, `\"`, `[]`, `[ ]`, `{}`, `null`, `[{`, `}]`, `},{`, `"`, `\`, "\x00", `[[[[`, `]]]]`, `-1`, `1e999`, `18446744073709551616`, `datagram`, `"accessMethodsRequest":{`, `"accessMethods":{`, `{"place":"holder"}`, ` `, `,`, `:`}

// mutate applies one structured mutation to a message.
func mutate(t *rapid.T, m []byte) []byte {
	if len(m) == 0 {
		return []byte{1, 0}
	}
	out := append([]byte(nil), m...)
	switch rapid.IntRange(0, 11).Draw(t, "mutKind") {
	case 10, 11: // the frame ends inside a string, right after a backslash or an incomplete escape
		out = append(out, rapid.SampledFrom([]string{`\`, `"\`, `"x\`, `"\u`, `"\u00`, `,{"k":"v\`}).Draw(t, "tail")...)
	case 0: // truncate
		out = out[:rapid.IntRange(0, len(out)).Draw(t, "cut")]
	case 1: // header byte
		out[0] = rapid.SampledFrom([]byte{0, 1, 2, 3, 4, 0x7b, 0xff}).Draw(t, "hdr")
	case 2: // flip a byte
		i := rapid.IntRange(0, len(out)-1).Draw(t, "pos")
		out[i] = rapid.Byte().Draw(t, "byte")
	case 3: // trailing NULs (PMCP devices)
		out = append(out, make([]byte, rapid.IntRange(1, 3).Draw(t, "nul"))...)
	case 4, 5: // insert a hostile token
		i := rapid.IntRange(1, len(out)).Draw(t, "pos")
		tok := rapid.SampledFrom(hostileTokens).Draw(t, "tok")
		out = append(out[:i:i], append([]byte(tok), m[i:]...)...)
	case 6: // replace a value between two structural characters by a hostile token
		s := string(out)
		idx := []int{}
		for i, c := range s {
			if c == ':' {
				idx = append(idx, i)
			}
		}
		if len(idx) > 0 {
			i := idx[rapid.IntRange(0, len(idx)-1).Draw(t, "colon")]
			j := i + 1
			for j < len(s) && !strings.ContainsRune("},]", rune(s[j])) {
				j++
			}
			tok := rapid.SampledFrom(hostileTokens).Draw(t, "tok")
			out = []byte(s[:i+1] + tok + s[j:])
		}
	case 7: // delete a range
		i := rapid.IntRange(0, len(out)-1).Draw(t, "from")
		j := rapid.IntRange(i, len(out)).Draw(t, "to")
		out = append(out[:i:i], m[j:]...)
	case 8: // duplicate a range (duplicate members, deep nesting)
		i := rapid.IntRange(0, len(out)-1).Draw(t, "from")
		j := rapid.IntRange(i, len(out)).Draw(t, "to")
		n := rapid.IntRange(1, 4).Draw(t, "times")
		mid := []byte(strings.Repeat(string(m[i:j]), n))
		out = append(out[:j:j], append(mid, m[j:]...)...)
	default: // blanks around structural characters
		s := string(out[1:])
		s = strings.NewReplacer("[", "[ ", "{", "{ ", ":", " : ", ",", " , ").Replace(s)
		out = append([]byte{out[0]}, s...)
	}
	return out
}

// genHostile draws a message for the adversarial alphabet: well-formed (any
// phase), structurally mutated, or arbitrary bytes. Always >= 2 bytes, as the
// websocket layer guarantees.
func genHostile(t *rapid.T) []byte {
	var m []byte
	switch rapid.IntRange(0, 9).Draw(t, "hostileKind") {
	case 0, 1, 2, 3:
		m = genWellFormed(t)
	case 4, 5, 6, 7:
		m = mutate(t, genWellFormed(t))
		if rapid.Bool().Draw(t, "twice") {
			m = mutate(t, m)
		}
	case 8:
		m = rapid.SliceOfN(rapid.Byte(), 2, 40).Draw(t, "bytes")
	default:
		// header byte + a generated JSON document in EEBUS form
		doc := jsonrt.GenObject(t, 0, 1, jsonrt.GenOpts{MaxDepth: 3, MaxWidth: 3})
		wire, _ := ship.JsonIntoEEBUSJson(jsonrt.Encode(doc, 0))
		m = append([]byte{rapid.SampledFrom([]byte{1, 1, 2, 3}).Draw(t, "hdr")}, wire...)
	}
	for len(m) < 2 {
		m = append(m, 0)
	}
	return m
}

func show(m []byte) string {
	if len(m) == 0 {
		return ""
	}
	return fmt.Sprintf("%d|%s", m[0], strings.ToValidUTF8(string(m[1:]), "?"))
}
