package shipsim

import (
	"encoding/json"
	"errors"
	"fmt"
	"sync"
	"testing"

	"pgregory.net/rapid"

	"verifharness/core"
)

// execute runs a script in a bubble and returns its trace.
func execute(t *testing.T, sc Script) *Trace {
	core.Journal(sc)
	var tr *Trace
	var mu sync.Mutex
	err := core.Bubble(t, func() {
		x := Run(sc)
		mu.Lock()
		tr = x
		mu.Unlock()
	})
	mu.Lock()
	defer mu.Unlock()
	if tr == nil {
		tr = &Trace{Script: sc, PanicAt: -1}
	}
	if err != nil {
		var w *core.ErrWedge
		var inc *core.ErrInconclusive
		switch {
		case errors.As(err, &w):
			tr.Wedge = w.Stack
		case errors.As(err, &inc):
			tr.Inconclusive = inc.Info
		default:
			tr.BubbleErr = err.Error()
		}
	}
	return tr
}

type monitor func(*Trace) (string, string)

// foreign runs the monitors of the other properties of this engine so that
// their failures are counted, not judged (DESIGN.md 4.6).
func foreign(st *core.Stats, tr *Trace, own string) bool {
	if own != "C08" {
		if k, _ := monitorC08(tr); k != "" {
			st.AddForeign("C08:" + k)
			return true
		}
	}
	return false
}

// classes of a trace for the evidence histogram
func traceClasses(tr *Trace) []string {
	f := facts(tr)
	var cls []string
	for s := 0; s < 2; s++ {
		max := uint(0)
		for _, i := range f.States[s] {
			if st := tr.Log[i].State; st != stError && st > max {
				max = st
			}
		}
		cls = append(cls, fmt.Sprintf("%s-max-state:%d", sideName[s], max))
	}
	return cls
}

func runAdversarial(t *testing.T, prop string, mon monitor, settle bool, nontrivial func(*Trace, *Facts) bool, classes func(*Trace) []string) {
	st := core.Begin(t, prop, "shipsim")
	defer st.End()
	rapid.Check(t, func(rt *rapid.T) {
		sc := genScript(rt, profAdversarial)
		sc.Settle = settle
		tr := execute(t, sc)
		if tr.Inconclusive != "" {
			st.AddInconclusive()
			return
		}
		if foreign(st, tr, prop) {
			return
		}
		key, msg := mon(tr)
		cls := traceClasses(tr)
		if classes != nil {
			cls = append(cls, classes(tr)...)
		}
		st.Case(sc, nontrivial(tr, facts(tr)), cls...)
		st.AddSkipped(tr.Skipped)
		if key != "" {
			st.Fail(key, msg, sc)
			rt.Fatalf("%s: %s", key, msg)
		}
	})
}

// TestC01 — trust gate under the adversarial alphabet.
func TestC01(t *testing.T) {
	runAdversarial(t, "C01", monitorC01, false, func(tr *Trace, f *Facts) bool {
		// server untrusted on entering hello, reached pending listen, >= 2 further executed events touched it
		at := -1
		for _, i := range f.States[Server] {
			if tr.Log[i].State == stPendingListen {
				at = tr.Log[i].Step
				break
			}
		}
		if at < 0 {
			return false
		}
		n := 0
		for i := at + 1; i < len(tr.Steps); i++ {
			if tr.Steps[i].Executed {
				n++
			}
		}
		return n >= 2
	}, nil)
}

// TestC04 — state graph and finality under the adversarial alphabet incl. write failures.
func TestC04(t *testing.T) {
	runAdversarial(t, "C04", monitorC04, true, func(tr *Trace, f *Facts) bool {
		reached := false
		for s := 0; s < 2; s++ {
			for _, i := range f.States[s] {
				if st := tr.Log[i].State; st >= stHello && st != stError {
					reached = true
				}
			}
		}
		if !reached {
			return false
		}
		for _, s := range tr.Steps {
			if s.Executed && (s.Ev.K == EvInject || s.Ev.K == EvAdvance || s.Ev.K == EvFailWrite || s.Ev.K == EvTransportError) {
				return true
			}
		}
		return false
	}, nil)
}

// TestC08 — no input or event sequence makes a SHIP entry point panic or wedge.
func TestC08(t *testing.T) {
	runAdversarial(t, "C08", monitorC08, false, func(tr *Trace, f *Facts) bool {
		for _, s := range tr.Steps {
			if s.Executed && s.Ev.K == EvInject && s.Before[s.Ev.S&1].State >= stHello {
				return true
			}
		}
		return false
	}, func(tr *Trace) []string {
		var cls []string
		for _, s := range tr.Steps {
			if s.Executed && s.Ev.K == EvInject {
				cls = append(cls, fmt.Sprintf("inject-in-state:%s:%d", sideName[s.Ev.S&1], s.Before[s.Ev.S&1].State))
			}
		}
		return cls
	})
}

// TestC11 — every connection end is reported exactly once (ship level).
func TestC11(t *testing.T) {
	runAdversarial(t, "C11", monitorC11, true, func(tr *Trace, f *Facts) bool {
		// two close causes within one run
		n := 0
		for _, s := range tr.Steps {
			if !s.Executed {
				continue
			}
			switch s.Ev.K {
			case EvCloseLocal, EvTransportError, EvPropagate, EvCancel:
				n++
			case EvInject:
				n++
			}
		}
		return n >= 2
	}, nil)
}

func replayScript(t *testing.T, raw json.RawMessage, mon monitor) (string, string) {
	var sc Script
	if err := json.Unmarshal(raw, &sc); err != nil {
		return "harness", err.Error()
	}
	tr := execute(t, sc)
	if testing.Verbose() {
		for _, o := range tr.Log {
			fmt.Println(describe(o))
		}
	}
	return mon(tr)
}
