package shipsim

import (
	"testing"

	"verifharness/core"
)

// TestReplay executes a replay file with the monitor of its property, bypassing rapid.
func TestReplay(t *testing.T) {
	if *core.ReplayFlag == "" {
		t.Skip("no -script")
	}
	f, err := core.LoadReplay(*core.ReplayFlag)
	if err != nil {
		t.Fatal(err)
	}
	var key, msg string
	switch f.Test {
	case "TestC14":
		key, msg = replayC14(t, f.Script)
	case "TestC01":
		key, msg = replayScript(t, f.Script, monitorC01)
	case "TestC04":
		key, msg = replayScript(t, f.Script, monitorC04)
	case "TestC08":
		key, msg = replayScript(t, f.Script, monitorC08)
	case "TestC11":
		key, msg = replayScript(t, f.Script, monitorC11)
	case "TestC03Timely", "TestC03Arbitrary":
		key, msg = replayScript(t, f.Script, replayC03)
	case "TestC06":
		key, msg = replayScript(t, f.Script, monitorC06)
	case "TestC09":
		key, msg = replayScript(t, f.Script, monitorC09)
	case "TestC07Envelope":
		key, msg = replayC07Env(t, f.Script)
	case "TestC08Real":
		key, msg = replayReal(f.Script)
	case "TestC14Real":
		key, msg = replayArm(f.Script)
	default:
		t.Fatalf("no replay handler for %s", f.Test)
	}
	core.ReplayVerdict(t, f.Property, key, msg)
}
