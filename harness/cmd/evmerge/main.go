// evmerge merges the shard files of one check run into one JSON document
// (printed on stdout) that the driver turns into evidence/<id>.json.
// Distinct non-trivial cases are counted as the size of the union of the
// shards' hash sets.
package main

import (
	"encoding/binary"
	"encoding/json"
	"fmt"
	"os"
	"sort"
)

type shard struct {
	Property    string          `json:"property"`
	Engine      string          `json:"engine"`
	Test        string          `json:"test"`
	Tier        string          `json:"tier"`
	Evaluations int             `json:"evaluations"`
	NonTrivial  int             `json:"nontrivial"`
	Classes     map[string]int  `json:"classes"`
	Skipped     int             `json:"skipped_events"`
	Excluded    map[string]int  `json:"excluded_by_known_finding"`
	Foreign     map[string]int  `json:"foreign_events"`
	Inconcl     int             `json:"inconclusive"`
	Samples     []any           `json:"samples"`
	Failure     json.RawMessage `json:"failure,omitempty"`
	WallS       float64         `json:"wall_s"`
	Requested   int             `json:"requested"`
	Note        string          `json:"note,omitempty"`
}

type merged struct {
	Evaluations int               `json:"evaluations"`
	NonTrivial  int               `json:"nontrivial_total"`
	Distinct    int               `json:"distinct_nontrivial"`
	Classes     map[string]int    `json:"classes"`
	Skipped     int               `json:"skipped_events"`
	Excluded    map[string]int    `json:"excluded_by_known_finding"`
	Foreign     map[string]int    `json:"foreign_events"`
	Inconcl     int               `json:"inconclusive"`
	Samples     []any             `json:"samples"`
	Failures    []json.RawMessage `json:"failures"`
	Requested   int               `json:"requested"`
	Shards      int               `json:"shards"`
	Tests       map[string]int    `json:"evaluations_per_test"`
	Notes       []string          `json:"notes,omitempty"`
}

func main() {
	m := merged{Classes: map[string]int{}, Excluded: map[string]int{}, Foreign: map[string]int{}, Tests: map[string]int{}}
	var hashes []uint64
	for _, p := range os.Args[1:] {
		b, err := os.ReadFile(p)
		if err != nil {
			fmt.Fprintln(os.Stderr, "evmerge:", err)
			os.Exit(2)
		}
		var s shard
		if err := json.Unmarshal(b, &s); err != nil {
			fmt.Fprintln(os.Stderr, "evmerge:", p, err)
			os.Exit(2)
		}
		m.Shards++
		m.Evaluations += s.Evaluations
		m.NonTrivial += s.NonTrivial
		m.Skipped += s.Skipped
		m.Inconcl += s.Inconcl
		m.Requested += s.Requested
		m.Tests[s.Test] += s.Evaluations
		for k, v := range s.Classes {
			m.Classes[k] += v
		}
		for k, v := range s.Excluded {
			m.Excluded[k] += v
		}
		for k, v := range s.Foreign {
			m.Foreign[k] += v
		}
		if len(m.Samples) < 8 {
			for _, x := range s.Samples {
				if len(m.Samples) < 8 {
					m.Samples = append(m.Samples, x)
				}
			}
		}
		if len(s.Failure) > 0 && string(s.Failure) != "null" {
			m.Failures = append(m.Failures, s.Failure)
		}
		if s.Note != "" {
			m.Notes = append(m.Notes, s.Note)
		}
		hb, err := os.ReadFile(p + ".hashes")
		if err == nil {
			for i := 0; i+8 <= len(hb); i += 8 {
				hashes = append(hashes, binary.LittleEndian.Uint64(hb[i:]))
			}
		}
	}
	sort.Slice(hashes, func(i, j int) bool { return hashes[i] < hashes[j] })
	for i, h := range hashes {
		if i == 0 || h != hashes[i-1] {
			m.Distinct++
		}
	}
	out, _ := json.Marshal(m)
	os.Stdout.Write(out)
}
