// Package zcnet runs real MdnsManagers with the real zeroconf provider (mdns/zeroconf.go) over
// real multicast sockets inside one process: what one manager announces is what the others
// read back (C16), their views follow the history of announcements and withdrawals (C17), and
// the provider's goroutines are exercised under the race detector (C20).
//
// It needs an interface on which multicast works (loopback of the sender's own packets is
// enough). Where that is not the case the probe fails and the run reports zero cases; it is an
// additional run and never the only one of its property.
package zcnet

import (
	crand "crypto/rand"
	"encoding/hex"
	"encoding/json"
	"fmt"
	"net"
	"sort"
	"strings"
	"sync"
	"sync/atomic"
	"testing"
	"time"

	"pgregory.net/rapid"

	"github.com/enbility/ship-go/api"
	"github.com/enbility/ship-go/mdns"
	"github.com/enbility/zeroconf/v2"
	"verifharness/core"
	"verifharness/mdnssim"
)

// NodeCfg: the configuration of one service.
type NodeCfg struct {
	Brand, Model, Type, Serial, ID string
	Categories                     []uint
	Auto                           bool
}

// ZCOp: announce | unannounce | auto | shutdown on node I, then a pause.
type ZCOp struct {
	K      string `json:"k"`
	I      int    `json:"i"`
	B      bool   `json:"b,omitempty"`
	WaitMs int    `json:"waitMs"`
}

// ProxyCfg: a foreign device on the network, announced by the harness itself through the zeroconf
// library (RegisterProxy): any addresses, any TXT.
type ProxyCfg struct {
	IPs     []string `json:"ips"`
	Invalid string   `json:"invalid,omitempty"` // "", missing:<key>, txtvers, register
	Brand   string   `json:"brand"`
}

type ZCScript struct {
	Nodes   []NodeCfg  `json:"nodes"`
	Proxies []ProxyCfg `json:"proxies,omitempty"`
	Ops     []ZCOp     `json:"ops"` // K "withdrawProxy": I is the proxy index
}

type sink struct {
	mu   sync.Mutex
	last map[string]*api.MdnsEntry
	n    int
}

func (s *sink) ReportMdnsEntries(entries map[string]*api.MdnsEntry, newEntries bool) {
	s.mu.Lock()
	s.last = entries
	s.n++
	s.mu.Unlock()
}

var caseNo atomic.Int64
var procTag = func() string { b := make([]byte, 6); _, _ = crand.Read(b); return hex.EncodeToString(b) }()

func cats(c []uint) []api.DeviceCategoryType {
	var out []api.DeviceCategoryType
	for _, x := range c {
		out = append(out, api.DeviceCategoryType(x))
	}
	return out
}

func txtMap(txt []string) map[string]string {
	m := map[string]string{}
	for _, t := range txt {
		k, v, _ := strings.Cut(t, "=")
		m[k] = v
	}
	return m
}

type node struct {
	ski, name string
	mgr       *mdns.MdnsManager
	twin      *mdns.MdnsManager // same configuration on a fake provider: tells what is announced
	fake      *mdnssim.FakeProvider
	sink      *sink
	announced bool
	running   bool
	lastAnn   time.Time
}

// runZC executes the script; returns key "", a violation key, "inconclusive" or "harness".
func runZC(sc ZCScript) (key, msg string) {
	c := caseNo.Add(1)
	var nodes []*node
	defer func() {
		for _, n := range nodes {
			if n.running {
				n.mgr.Shutdown()
			}
			n.twin.Shutdown()
		}
	}()
	for i, cfg := range sc.Nodes {
		n := &node{ski: fmt.Sprintf("%s%08x%020x", procTag, c, i), name: fmt.Sprintf("v%s-%d-%d", procTag, c, i), sink: &sink{}, fake: &mdnssim.FakeProvider{}}
		n.mgr = mdns.NewMDNS(n.ski, cfg.Brand, cfg.Model, cfg.Type, cfg.Serial, cats(cfg.Categories), cfg.ID, n.name, 4000+i, nil, mdns.MdnsProviderSelectionGoZeroConfOnly)
		n.twin = mdns.NewMDNS(n.ski, cfg.Brand, cfg.Model, cfg.Type, cfg.Serial, cats(cfg.Categories), cfg.ID, n.name, 4000+i, nil, mdns.MdnsProviderSelectionGoZeroConfOnly)
		if err := n.twin.VerifStartWithProvider(n.fake, nil); err != nil {
			return "harness", "twin: " + err.Error()
		}
		n.mgr.SetAutoAccept(cfg.Auto)
		n.twin.SetAutoAccept(cfg.Auto)
		if err := n.mgr.Start(n.sink); err != nil {
			return "harness", "start: " + err.Error()
		}
		n.running, n.announced, n.lastAnn = true, true, time.Now()
		nodes = append(nodes, n)
	}
	type proxy struct {
		ski       string
		srv       *zeroconf.Server
		announced bool
	}
	var proxies []*proxy
	defer func() {
		for _, p := range proxies {
			if p.announced {
				p.srv.Shutdown()
			}
		}
	}()
	for j, pc := range sc.Proxies {
		p := &proxy{ski: fmt.Sprintf("%s%08x%018xff", procTag, c, j)}
		txt := map[string]string{"txtvers": "1", "path": "/ship/", "id": fmt.Sprintf("proxy-%d", j), "ski": p.ski, "brand": pc.Brand, "model": "m", "type": "t", "register": "false"}
		switch {
		case strings.HasPrefix(pc.Invalid, "missing:"):
			delete(txt, strings.TrimPrefix(pc.Invalid, "missing:"))
		case pc.Invalid == "txtvers":
			txt["txtvers"] = "2"
		case pc.Invalid == "register":
			txt["register"] = "yes"
		}
		var items []string
		for _, k := range []string{"txtvers", "path", "id", "ski", "brand", "model", "type", "register"} {
			if v, ok := txt[k]; ok {
				items = append(items, k+"="+v)
			}
		}
		srv, err := zeroconf.RegisterProxy(fmt.Sprintf("p%s-%d-%d", procTag, c, j), "_ship._tcp", "local.", 5000+j, fmt.Sprintf("ph%s-%d-%d", procTag, c, j), pc.IPs, items, nil, zeroconf.TTL(120))
		if err != nil {
			return "harness", "proxy: " + err.Error()
		}
		p.srv, p.announced = srv, true
		proxies = append(proxies, p)
	}
	for _, op := range sc.Ops {
		if op.K == "withdrawProxy" {
			if op.I >= 0 && op.I < len(proxies) && proxies[op.I].announced {
				proxies[op.I].srv.Shutdown()
				proxies[op.I].announced = false
			}
			time.Sleep(time.Duration(op.WaitMs) * time.Millisecond)
			continue
		}
		if op.I < 0 || op.I >= len(nodes) {
			continue
		}
		n := nodes[op.I]
		// mDNS needs its time: a service that is announced again within about two seconds of its previous
		// announcement can be overtaken by a late record of the old registration at the readers (seen
		// about 1 in 15 times). Announcements of one service are spaced by 2.5 s.
		spaced := func() {
			if d := 2500*time.Millisecond - time.Since(n.lastAnn); d > 0 {
				time.Sleep(d)
			}
			n.lastAnn = time.Now()
		}
		if n.running {
			switch op.K {
			case "announce":
				if !n.announced { // announcing twice without a withdrawal in between is not what the hub does
					spaced()
					_ = n.mgr.AnnounceMdnsEntry()
					n.announced = true
				}
			case "unannounce":
				n.mgr.UnannounceMdnsEntry()
				n.announced = false
			case "auto":
				if n.announced {
					spaced()
				}
				n.mgr.SetAutoAccept(op.B)
				n.twin.SetAutoAccept(op.B)
			case "shutdown":
				n.mgr.Shutdown()
				n.running, n.announced = false, false
			}
		}
		time.Sleep(time.Duration(op.WaitMs) * time.Millisecond)
	}
	// expected view of every running node: the announced services of the others
	mine := map[string]*node{}
	for _, n := range nodes {
		mine[n.ski] = n
	}
	check := func() (string, string) {
		for j, nj := range nodes {
			if !nj.running {
				continue
			}
			view := nj.mgr.VerifEntries()
			for i, ni := range nodes {
				if i == j {
					continue
				}
				e := view[ni.ski]
				if !ni.announced {
					if e != nil {
						return "C17/zeroconf-withdrawn-service-known", fmt.Sprintf("node %d still knows node %d although its announcement was withdrawn", j, i)
					}
					continue
				}
				if e == nil {
					return "C17/zeroconf-service-missing", fmt.Sprintf("node %d does not know node %d although it is announced", j, i)
				}
				ann, ok := ni.fake.Last()
				if !ok {
					return "harness", "twin announced nothing"
				}
				want := txtMap(ann.Txt)
				got := map[string]string{"ski": e.Ski, "id": e.Identifier, "path": e.Path, "brand": e.Brand, "model": e.Model, "type": e.Type, "serial": e.Serial,
					"register": fmt.Sprint(e.Register)}
				for k, g := range got {
					if g != want[k] {
						return "C16/zeroconf-readback", fmt.Sprintf("node %d reads %s=%q for node %d, announced is %q (TXT %q)", j, k, g, i, want[k], ann.Txt)
					}
				}
				var cs []string
				for _, x := range e.Categories {
					cs = append(cs, fmt.Sprint(uint(x)))
				}
				if strings.Join(cs, ",") != want["cat"] {
					return "C16/zeroconf-readback", fmt.Sprintf("node %d reads categories %v for node %d, announced is %q", j, cs, i, want["cat"])
				}
				if len(e.Addresses) == 0 {
					return "C17/zeroconf-no-address", fmt.Sprintf("node %d knows node %d without any address", j, i)
				}
				seen := map[string]bool{}
				for _, ip := range e.Addresses {
					if ip.To4() == nil && ip.IsLinkLocalUnicast() {
						return "C17/zeroconf-link-local", fmt.Sprintf("node %d knows node %d with the IPv6 link-local address %v", j, i, ip)
					}
					if seen[ip.String()] {
						return "C17/zeroconf-duplicate-address", fmt.Sprintf("node %d knows node %d with the address %v twice: %v", j, i, ip, e.Addresses)
					}
					seen[ip.String()] = true
				}
			}
			// foreign devices: known exactly if announced with valid mandatory TXT data, with the usable ones of their addresses
			for k, px := range proxies {
				e := view[px.ski]
				pc := sc.Proxies[k]
				if !px.announced || pc.Invalid != "" {
					if e != nil {
						return "C17/zeroconf-foreign-service-known", fmt.Sprintf("node %d knows the foreign service %d (announced: %v, TXT defect: %q)", j, k, px.announced, pc.Invalid)
					}
					continue
				}
				if e == nil {
					return "C17/zeroconf-foreign-service-missing", fmt.Sprintf("node %d does not know the foreign service %d (valid TXT, addresses %v)", j, k, pc.IPs)
				}
				want := map[string]bool{}
				for _, a := range pc.IPs {
					if ip := net.ParseIP(a); ip != nil && !(ip.To4() == nil && ip.IsLinkLocalUnicast()) {
						want[ip.String()] = true
					}
				}
				got := map[string]bool{}
				for _, ip := range e.Addresses {
					if got[ip.String()] {
						return "C17/zeroconf-duplicate-address", fmt.Sprintf("node %d knows the foreign service %d with the address %v twice", j, k, ip)
					}
					got[ip.String()] = true
				}
				if len(got) != len(want) {
					return "C17/zeroconf-foreign-addresses", fmt.Sprintf("node %d knows the foreign service %d with the addresses %v, the usable announced ones are %v", j, k, e.Addresses, pc.IPs)
				}
				for a := range want {
					if !got[a] {
						return "C17/zeroconf-foreign-addresses", fmt.Sprintf("node %d knows the foreign service %d with the addresses %v, the usable announced ones are %v", j, k, e.Addresses, pc.IPs)
					}
				}
				if e.Brand != pc.Brand {
					return "C16/zeroconf-readback", fmt.Sprintf("node %d reads brand %q for the foreign service %d, announced is %q", j, e.Brand, k, pc.Brand)
				}
			}
			// the last report delivered shows the same set (restricted to this case's services)
			nj.sink.mu.Lock()
			var got []string
			for ski := range nj.sink.last {
				if mine[ski] != nil || strings.HasPrefix(ski, fmt.Sprintf("%s%08x", procTag, c)) {
					got = append(got, ski)
				}
			}
			reports := nj.sink.n
			nj.sink.mu.Unlock()
			var want []string
			for i, ni := range nodes {
				if i != j && ni.announced {
					want = append(want, ni.ski)
				}
			}
			for k, px := range proxies {
				if px.announced && sc.Proxies[k].Invalid == "" {
					want = append(want, px.ski)
				}
			}
			sort.Strings(got)
			sort.Strings(want)
			if strings.Join(got, ",") != strings.Join(want, ",") && (reports > 0 || len(want) > 0) {
				return "C17/zeroconf-last-report", fmt.Sprintf("the last of %d reports delivered to node %d shows %d of this case's services, %d are announced", reports, j, len(got), len(want))
			}
		}
		return "", ""
	}
	// real network, real time: poll until the views agree with the history; what does not settle
	// within the bound is judged on its last state
	deadline := time.Now().Add(12 * time.Second)
	for {
		key, msg = check()
		if key == "" || key == "harness" || time.Now().After(deadline) {
			break
		}
		time.Sleep(200 * time.Millisecond)
	}
	if key == "" {
		// stays that way for a moment (an entry must not come back after a withdrawal)
		time.Sleep(700 * time.Millisecond)
		key, msg = check()
	}
	return key, msg
}

// works reports whether two managers find each other through the zeroconf provider here.
var probeOnce sync.Once
var probeOK bool

func works() bool {
	probeOnce.Do(func() {
		k, _ := runZC(ZCScript{Nodes: []NodeCfg{{Brand: "probe", ID: "p0"}, {Brand: "probe", ID: "p1"}}})
		probeOK = k == ""
	})
	return probeOK
}

var pieces = []string{"a", "B", "0", " ", "=", ";", ":", ",", "\\", "\"", "\\065", "é", "€", "😀", "ß", "日本", "-", "_", "Demo", "EVSE", "HeatPump", "x=y"}

func genField(t *rapid.T, label string) string {
	switch rapid.IntRange(0, 4).Draw(t, label+"Kind") {
	case 0:
		return ""
	case 1:
		return rapid.StringMatching(`[A-Za-z0-9 _-]{1,20}`).Draw(t, label)
	case 2:
		n := rapid.IntRange(28, 34).Draw(t, label+"Pad")
		return strings.Repeat("a", n) + rapid.SampledFrom([]string{"é", "€", "😀", "ab", "日"}).Draw(t, label+"Rune")
	default:
		return strings.Join(rapid.SliceOfN(rapid.SampledFrom(pieces), 1, 12).Draw(t, label), "")
	}
}

func genZC(t *rapid.T) ZCScript {
	var sc ZCScript
	n := rapid.IntRange(2, 4).Draw(t, "nodes")
	for i := 0; i < n; i++ {
		c := NodeCfg{Brand: genField(t, "brand"), Model: genField(t, "model"), Type: genField(t, "type"), Serial: genField(t, "serial"),
			ID: "id-" + genField(t, "id"), Auto: rapid.Bool().Draw(t, "auto")}
		if rapid.Bool().Draw(t, "hasCats") {
			c.Categories = rapid.SliceOfN(rapid.SampledFrom([]uint{1, 2, 3, 4, 5, 6, 7}), 1, 4).Draw(t, "cats")
		}
		sc.Nodes = append(sc.Nodes, c)
	}
	for i, m := 0, rapid.SampledFrom([]int{0, 1, 1, 1, 2}).Draw(t, "proxies"); i < m; i++ {
		pc := ProxyCfg{Brand: rapid.StringMatching(`[A-Za-z0-9 _-]{0,12}`).Draw(t, "pbrand"),
			IPs: rapid.SampledFrom([][]string{{"fe80::77"}, {"fe80::77", "fe80::78"}, {"fe80::78"}, {"192.0.2.77"}, {"192.0.2.77", "fe80::77"}, {"2001:db8::77"},
				{"2001:db8::77", "192.0.2.77", "192.0.2.78"}, {"fe80::78", "2001:db8::77"}}).Draw(t, "ips")}
		if rapid.IntRange(0, 3).Draw(t, "pinvalid") == 0 {
			pc.Invalid = rapid.SampledFrom([]string{"missing:txtvers", "missing:id", "missing:path", "missing:ski", "missing:register", "txtvers", "register"}).Draw(t, "invalidKind")
		}
		sc.Proxies = append(sc.Proxies, pc)
	}
	for i, m := 0, rapid.IntRange(0, 8).Draw(t, "nOps"); i < m; i++ {
		if len(sc.Proxies) > 0 && rapid.IntRange(0, 5).Draw(t, "proxyOp") == 0 {
			sc.Ops = append(sc.Ops, ZCOp{K: "withdrawProxy", I: rapid.IntRange(0, len(sc.Proxies)-1).Draw(t, "proxy"), WaitMs: rapid.SampledFrom([]int{0, 300, 900}).Draw(t, "pwait")})
			continue
		}
		sc.Ops = append(sc.Ops, ZCOp{K: rapid.SampledFrom([]string{"unannounce", "unannounce", "announce", "announce", "auto", "auto", "shutdown"}).Draw(t, "op"),
			I: rapid.IntRange(0, n-1).Draw(t, "node"), B: rapid.Bool().Draw(t, "b"), WaitMs: rapid.SampledFrom([]int{0, 50, 300, 900, 1600}).Draw(t, "wait")})
	}
	return sc
}

func runProperty(t *testing.T, prop string, want func(key string) bool) {
	st := core.Begin(t, prop, "zcnet")
	defer st.End()
	if !works() {
		st.Note = "multicast does not work in this environment: the zeroconf run was skipped"
		t.Log(st.Note)
		return
	}
	batch := core.EnvInt("VERIF_BATCH", 3)
	rapid.Check(t, func(rt *rapid.T) {
		scs := make([]ZCScript, batch)
		for i := range scs {
			scs[i] = genZC(rt)
		}
		keys, msgs := make([]string, batch), make([]string, batch)
		var wg sync.WaitGroup
		for i := range scs {
			wg.Add(1)
			go func(i int) { defer wg.Done(); keys[i], msgs[i] = runZC(scs[i]) }(i)
		}
		wg.Wait()
		for i := range scs {
			if keys[i] == "harness" {
				st.AddInconclusive()
				continue
			}
			withdrawals := 0
			for _, op := range scs[i].Ops {
				if op.K == "unannounce" || op.K == "shutdown" || op.K == "auto" {
					withdrawals++
				}
			}
			if keys[i] != "" && !want(keys[i]) {
				st.AddForeign(keys[i]) // judged by the other property's run
				continue
			}
			if keys[i] != "" {
				// real network: a difference counts if it shows again when the case runs on its own.
				// What was read (field values) is deterministic, one reproduction is enough; whether a
				// datagram was lost (a service missing / still known) is not: both re-executions must agree
				rep := 0
				for n := 0; n < 2; n++ {
					if k, _ := runZC(scs[i]); k == keys[i] {
						rep++
					}
				}
				need := 2
				if strings.HasPrefix(keys[i], "C16/") {
					need = 1
				}
				if rep < need {
					st.AddForeign("unreproduced:" + keys[i])
					st.Note = "unreproduced: " + msgs[i]
					continue
				}
			}
			st.Case(scs[i], withdrawals > 0 && len(scs[i].Nodes) > 2, "zeroconf")
			if keys[i] != "" {
				st.Fail(keys[i], msgs[i], scs[i])
				rt.Fatalf("%s: %s", keys[i], msgs[i])
			}
		}
	})
}

// TestC16ZC - what a service announces through the zeroconf provider is what another manager reads back.
func TestC16ZC(t *testing.T) {
	runProperty(t, "C16", func(k string) bool { return strings.HasPrefix(k, "C16/") })
}

// TestC17ZC - the managers' views follow the history of announcements and withdrawals (zeroconf provider).
func TestC17ZC(t *testing.T) {
	runProperty(t, "C17", func(k string) bool { return strings.HasPrefix(k, "C17/") })
}

// TestC20ZC - the same histories under the race detector.
func TestC20ZC(t *testing.T) { runProperty(t, "C20", func(k string) bool { return false }) }

func TestReplay(t *testing.T) {
	if *core.ReplayFlag == "" {
		t.Skip("no -script")
	}
	f, err := core.LoadReplay(*core.ReplayFlag)
	if err != nil {
		t.Fatal(err)
	}
	var sc ZCScript
	if err := json.Unmarshal(f.Script, &sc); err != nil {
		t.Fatal(err)
	}
	key, msg := "", ""
	if works() {
		for i := 0; i < 3 && key == ""; i++ {
			key, msg = runZC(sc)
		}
	}
	if key == "harness" {
		key = ""
	}
	core.ReplayVerdict(t, f.Property, key, msg)
}
