package mdnssim

import (
	"testing"

	"verifharness/core"
)

// TestReplay executes a replay file with the monitor of its property, bypassing rapid.
func TestReplay(t *testing.T) {
	if *core.ReplayFlag == "" {
		t.Skip("no -script")
	}
	f, err := core.LoadReplay(*core.ReplayFlag)
	if err != nil {
		t.Fatal(err)
	}
	var key, msg string
	switch f.Test {
	case "TestC16":
		key, msg = replayC16(t, f.Script)
	case "TestC17":
		key, msg = replayC17(t, f.Script)
	case "TestC19":
		key, msg = replayC19(t, f.Script)
	case "TestC08Mdns":
		key, msg = replayC08c(t, f.Script)
	default:
		t.Fatalf("no replay handler for %s", f.Test)
	}
	core.ReplayVerdict(t, f.Property, key, msg)
}
