package mdnssim

import (
	"strings"
	"testing"
)

// FuzzTxt — coverage-guided search over raw TXT records (items separated by
// newlines) pushed through the Avahi path (parseTxt -> entry processing) and
// over resolver-callback maps built from them: no panic, no wedge (C08).
func FuzzTxt(f *testing.F) {
	for _, s := range []string{
		"txtvers=1\nid=i\npath=/ship/\nski=0000000000000000000000000000000000000001\nregister=true\nbrand=b\nmodel=m\ntype=t\nserial=s\ncat=1,2",
		"txtvers=1\nid=a=b\npath=/ship/\nski=x\nregister=false", "txtvers=2", "=", "a\n=b\n==", "cat=,,1,x,-1,99999999999999999999\ntxtvers=1\nid=\npath=\nski=\nregister=true",
	} {
		f.Add([]byte(s), "192.168.1.5", false)
	}
	f.Fuzz(func(t *testing.T, data []byte, addr string, remove bool) {
		if len(data) > 2048 || len(addr) > 64 {
			t.Skip()
		}
		items := strings.Split(string(data), "\n")
		txt := map[string]string{}
		for _, it := range items {
			if k, v, ok := strings.Cut(it, "="); ok {
				txt[k] = v
			}
		}
		sc := C08cScript{Events: []C08cEvent{
			{Via: "avahi", Raw: items, Name: "svc", Host: "h.local", Addr: addr, Port: 4711},
			{Via: "cb", Txt: txt, Name: "svc2", Host: "h2.local", Addrs: [][]byte{[]byte(addr)}, Port: 4712, Remove: remove},
			{Via: "avahi", Raw: items, Name: "svc", Host: "h.local", Addr: addr, Port: 4711, Remove: true},
		}}
		if key, msg := judgeC08c(t, sc); key != "" && key != "inconclusive" {
			t.Fatalf("%s: %s", key, msg)
		}
	})
}
