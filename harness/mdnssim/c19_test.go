package mdnssim

import (
	"encoding/json"
	"fmt"
	"net"
	"strings"
	"sync"
	"testing"
	"testing/synctest"
	"time"

	"github.com/enbility/go-avahi"
	"pgregory.net/rapid"

	"github.com/enbility/ship-go/mdns"
	"verifharness/core"
)

// C19Event is one step of an Avahi life-cycle script.
type C19Event struct {
	K string `json:"k"` // disconnect | available | announce | unannounce | shutdown | add | addheld | remove | advance
	B bool   `json:"b,omitempty"`
	N int    `json:"n,omitempty"`
	D int64  `json:"d,omitempty"`
}

type C19Script struct {
	AutoReconnect bool       `json:"autoReconnect"` // value passed to Start
	Events        []C19Event `json:"events"`
	// ViaManager: the announcement is requested through a real MdnsManager that uses the provider
	// (AnnounceMdnsEntry / UnannounceMdnsEntry / SetAutoAccept), as the hub does; "announce" N then
	// means: auto accept = (N even), announce
	ViaManager bool `json:"viaManager,omitempty"`
}

func c19Txt(i int) []string {
	return []string{"txtvers=1", "path=/ship/", fmt.Sprintf("id=announce-%d", i), "ski=1234", fmt.Sprintf("register=%v", i%2 == 0)}
}

type c19Result struct {
	Violation string
	Key       string
	Herr      string
	Outage    bool // an API call or browse result happened during an outage
}

type resolved struct {
	Name   string
	Remove bool
}

func runC19(sc C19Script) *c19Result {
	res := &c19Result{}
	daemon := NewFakeAvahi()
	prov := mdns.NewAvahiProviderWithServer([]int32{avahi.InterfaceUnspec}, daemon)
	var mu sync.Mutex
	var seen []resolved
	cb := func(elements map[string]string, name, host string, addresses []net.IP, port int, remove bool) {
		mu.Lock()
		seen = append(seen, resolved{name, remove})
		mu.Unlock()
	}
	var mgr, twin *mdns.MdnsManager
	twinProv := &FakeProvider{}
	if sc.ViaManager {
		// the manager starts the provider itself (auto reconnect on) and announces at once; the twin, same
		// configuration on a fake provider, tells which TXT record is the requested one
		mk := func() *mdns.MdnsManager {
			return mdns.NewMDNS("1234567890123456789012345678901234567890", "brand", "model", "type", "serial", nil, "id", "svc", 4711, nil, mdns.MdnsProviderSelectionAll)
		}
		mgr, twin = mk(), mk()
		if err := twin.VerifStartWithProvider(twinProv, nil); err != nil {
			res.Herr = "twin: " + err.Error()
			return res
		}
		if err := mgr.VerifStartWithProvider(prov, nil); err != nil {
			res.Herr = "manager did not start against an available daemon: " + err.Error()
			return res
		}
	} else if !prov.Start(sc.AutoReconnect, cb) {
		res.Herr = "provider did not start against an available daemon"
		return res
	}
	synctest.Wait()

	var desired []string // nil = no announcement active
	if sc.ViaManager {
		if a, ok := twinProv.Last(); ok {
			desired = a.Txt
		}
	}
	shutdown := false
	var cntAtShutdown [4]int
	stableSince := time.Now() // daemon available and nothing disturbed since
	daemonUp := true
	probeNo := 0
	fail := func(key, f string, a ...any) {
		if res.Violation == "" {
			res.Key = key
			res.Violation = fmt.Sprintf(f, a...) + " | daemon log: " + strings.Join(daemon.Log, "; ")
		}
	}
	// check runs whenever the daemon has been reachable for more than two virtual seconds
	check := func(where string) {
		if res.Violation != "" {
			return
		}
		if shutdown {
			a, b, c, d := daemon.Counters()
			if [4]int{a, b, c, d} != cntAtShutdown {
				fail("C19/activity-after-shutdown", "%s: after the manual shutdown the provider went on (setup calls, successful setups, browsers, entry groups: %v -> %v)", where, cntAtShutdown, [4]int{a, b, c, d})
			}
			if v := daemon.View(); v.Connected && (v.LiveBrowsers > 0 || len(v.LiveGroups) > 0) {
				fail("C19/alive-after-shutdown", "%s: after the manual shutdown the daemon still holds %d browsers and groups %v", where, v.LiveBrowsers, v.LiveGroups)
			}
			return
		}
		if !daemonUp || time.Since(stableSince) <= 2*time.Second {
			return
		}
		v := daemon.View()
		if !v.Connected {
			fail("C19/not-reconnected", "%s: the daemon has been reachable for %s but the provider is not connected", where, time.Since(stableSince))
			return
		}
		if v.LiveBrowsers != 1 {
			fail("C19/browser-count", "%s: %d live service browsers, expected exactly one", where, v.LiveBrowsers)
			return
		}
		want := strings.Join(desired, "\x00")
		found := 0
		for _, g := range v.LiveGroups {
			if strings.Join(g, "\x00") == want {
				found++
			}
		}
		_, _, _, groupsEver := daemon.Counters()
		strict := daemon.groupsInGen() <= 1
		_ = groupsEver
		if desired != nil {
			if found == 0 {
				fail("C19/announcement-lost-or-stale", "%s: an announcement with TXT %q is active, but the daemon holds %q", where, desired, v.LiveGroups)
				return
			}
			if strict && len(v.LiveGroups) != 1 {
				fail("C19/extra-announcement", "%s: the daemon holds %d entry groups %q, expected exactly the one with %q", where, len(v.LiveGroups), v.LiveGroups, desired)
				return
			}
		} else if strict && len(v.LiveGroups) != 0 {
			fail("C19/stale-announcement", "%s: no announcement is active, but the daemon holds %q", where, v.LiveGroups)
			return
		}
		// browse results arriving now are reported
		daemon.ReleaseResolve()
		synctest.Wait()
		probeNo++
		name := fmt.Sprintf("probe-%d", probeNo)
		probeSki := fmt.Sprintf("%040d", probeNo)
		daemon.Emit(avahi.Service{Interface: 2, Name: name, Type: "_ship._tcp", Domain: "local", Host: "h.local", Address: "192.168.1.9", Port: 4711,
			Txt: [][]byte{[]byte("txtvers=1"), []byte("path=/ship/"), []byte("id=" + name), []byte("ski=" + probeSki), []byte("register=false")}}, false)
		synctest.Wait()
		mu.Lock()
		ok := false
		for _, r := range seen {
			if r.Name == name && !r.Remove {
				ok = true
			}
		}
		mu.Unlock()
		if sc.ViaManager {
			ok = mgr.VerifEntries()[probeSki] != nil
		}
		if !ok {
			fail("C19/browse-result-lost", "%s: a service that appeared after the reconnect was not reported to the resolver callback", where)
		}
	}

	outage := func() bool { return !daemon.View().Connected }
	for i, ev := range sc.Events {
		where := fmt.Sprintf("event %d (%s)", i, ev.K)
		if !(i > 0 && sc.Events[i-1].K == "addheld" && (ev.K == "shutdown" || ev.K == "disconnect" || ev.K == "unannounce" || ev.K == "announce")) {
			// only the event right after "addheld" runs while the resolution is pending
			daemon.ReleaseResolve()
			synctest.Wait()
		}
		switch ev.K {
		case "disconnect":
			daemonUp = ev.B
			daemon.DaemonDisconnect(ev.B)
			stableSince = time.Now()
		case "available":
			daemon.SetAvailable(ev.B)
			if ev.B != daemonUp {
				stableSince = time.Now()
			}
			daemonUp = ev.B
		case "announce":
			if shutdown {
				continue
			}
			if outage() {
				res.Outage = true
			}
			if sc.ViaManager {
				mgr.SetAutoAccept(ev.N%2 == 0)
				twin.SetAutoAccept(ev.N%2 == 0)
				_ = mgr.AnnounceMdnsEntry()
				_ = twin.AnnounceMdnsEntry()
				if a, ok := twinProv.Last(); ok {
					desired = a.Txt
				}
				continue
			}
			txt := c19Txt(ev.N)
			_ = prov.Announce("svc", 4711, txt)
			desired = txt
			// an announcement that could not reach the daemon is still the latest request
		case "unannounce":
			if shutdown {
				continue
			}
			if outage() {
				res.Outage = true
			}
			if sc.ViaManager {
				mgr.UnannounceMdnsEntry()
				twin.UnannounceMdnsEntry()
			} else {
				prov.Unannounce()
			}
			desired = nil
		case "shutdown":
			if shutdown {
				continue
			}
			if outage() {
				res.Outage = true
			}
			if ev.B {
				// a service is found while the provider is giving up its browser
				daemon.EmitOnFree(avahi.Service{Interface: 2, Name: "late-comer", Type: "_ship._tcp", Domain: "local", Host: "h.local", Address: "192.168.1.77", Port: 4711,
					Txt: [][]byte{[]byte("txtvers=1")}})
			}
			done := make(chan struct{})
			go func() {
				if sc.ViaManager {
					mgr.Shutdown()
				} else {
					prov.Shutdown()
				}
				close(done)
			}()
			synctest.Wait()
			// a browse result that is being resolved (slow D-Bus round trip) now gets its answer
			daemon.ReleaseResolve()
			synctest.Wait()
			select {
			case <-done:
			default:
				fail("C19/shutdown-deadlock", "%s: Shutdown() did not return", where)
				return res
			}
			shutdown = true
			desired = nil
			a, b, c, d := daemon.Counters()
			cntAtShutdown = [4]int{a, b, c, d}
		case "addheld":
			// a service appears and its resolution is slow: the listener is inside ResolveService
			// while the following event happens
			if outage() {
				res.Outage = true
			}
			daemon.ReleaseResolve()
			if v := daemon.View(); v.Connected && v.LiveBrowsers > 0 && !shutdown {
				daemon.HoldNextResolve()
			}
			go daemon.Emit(avahi.Service{Interface: 2, Name: fmt.Sprintf("held-%d", ev.N), Type: "_ship._tcp", Domain: "local", Host: "p.local",
				Address: "192.168.1.21", Port: 4713, Txt: [][]byte{[]byte("txtvers=1")}}, false)
		case "add", "remove":
			if outage() {
				res.Outage = true
			}
			go daemon.Emit(avahi.Service{Interface: 2, Name: fmt.Sprintf("peer-%d", ev.N), Type: "_ship._tcp", Domain: "local", Host: "p.local",
				Address: "192.168.1.20", Port: 4712, Txt: [][]byte{[]byte("txtvers=1")}}, ev.K == "remove")
		case "advance":
			time.Sleep(time.Duration(ev.D))
		}
		synctest.Wait()
		if !daemon.IsHolding() {
			check(where)
		}
		if res.Violation != "" {
			break
		}
	}
	daemon.ReleaseResolve()
	synctest.Wait()
	// the daemon comes back for good: the provider must recover
	if res.Violation == "" {
		if !daemonUp {
			daemon.SetAvailable(true)
			daemonUp = true
			stableSince = time.Now()
		}
		time.Sleep(5 * time.Second)
		synctest.Wait()
		check("end")
	}
	if !shutdown {
		done := make(chan struct{})
		go func() { prov.Shutdown(); close(done) }()
		synctest.Wait()
		daemon.ReleaseResolve()
		synctest.Wait()
		select {
		case <-done:
		default:
			fail("C19/shutdown-deadlock", "final Shutdown() did not return")
			return res
		}
	}
	time.Sleep(10 * time.Second)
	synctest.Wait()
	return res
}

func judgeC19(t *testing.T, sc C19Script) (key, msg string, res *c19Result) {
	core.Journal(sc)
	var mu sync.Mutex
	err := core.Bubble(t, func() {
		x := runC19(sc)
		mu.Lock()
		res = x
		mu.Unlock()
	})
	mu.Lock()
	defer mu.Unlock()
	if core.IsInconclusive(err) {
		return "inconclusive", err.Error(), nil
	}
	if res == nil {
		return "C19/hang", "the case could not finish: " + fmt.Sprint(err), nil
	}
	if res.Herr != "" {
		return "harness", res.Herr, res
	}
	if res.Violation != "" {
		return res.Key, res.Violation, res
	}
	if err != nil {
		return "C19/goroutine-leak", "a provider goroutine never ended: " + err.Error(), res
	}
	return "", "", res
}

func genC19(t *rapid.T) C19Script {
	sc := C19Script{AutoReconnect: rapid.Bool().Draw(t, "autoReconnect"), ViaManager: rapid.IntRange(0, 2).Draw(t, "viaManager") == 0}
	n := rapid.IntRange(1, 25).Draw(t, "n")
	for i := 0; i < n; i++ {
		var ev C19Event
		switch rapid.IntRange(0, 13).Draw(t, "ev") {
		case 0, 1:
			ev = C19Event{K: "disconnect", B: rapid.Bool().Draw(t, "availableAfter")}
		case 2:
			ev = C19Event{K: "available", B: rapid.Bool().Draw(t, "b")}
		case 3, 4, 5:
			ev = C19Event{K: "announce", N: rapid.IntRange(0, 5).Draw(t, "txt")}
		case 6:
			ev = C19Event{K: "unannounce"}
		case 7:
			if rapid.IntRange(0, 2).Draw(t, "reallyShutdown") != 0 {
				ev = C19Event{K: "advance", D: int64(time.Second)}
			} else {
				ev = C19Event{K: "shutdown", B: rapid.Bool().Draw(t, "foundWhileFreeing")}
			}
		case 8:
			ev = C19Event{K: rapid.SampledFrom([]string{"add", "add", "addheld"}).Draw(t, "addKind"), N: rapid.IntRange(0, 3).Draw(t, "peer")}
		case 9:
			ev = C19Event{K: "remove", N: rapid.IntRange(0, 3).Draw(t, "peer")}
		default:
			ev = C19Event{K: "advance", D: int64(rapid.SampledFrom([]time.Duration{100 * time.Millisecond, 900 * time.Millisecond, time.Second, 1100 * time.Millisecond, 2500 * time.Millisecond, 5 * time.Second}).Draw(t, "d"))}
		}
		sc.Events = append(sc.Events, ev)
	}
	return sc
}

// TestC19 — the Avahi provider survives daemon restarts without stale or lost announcements.
func TestC19(t *testing.T) {
	st := core.Begin(t, "C19", "mdnssim")
	defer st.End()
	rapid.Check(t, func(rt *rapid.T) {
		sc := genC19(rt)
		key, msg, res := judgeC19(t, sc)
		if key == "inconclusive" {
			st.AddInconclusive()
			return
		}
		disc := false
		for _, e := range sc.Events {
			if e.K == "disconnect" {
				disc = true
			}
		}
		nt := disc && res != nil && res.Outage
		st.Case(sc, nt, "has-disconnect:"+b2s(disc), "start-autoreconnect:"+b2s(sc.AutoReconnect))
		if key != "" {
			st.Fail(key, msg, sc)
			rt.Fatalf("%s: %s", key, msg)
		}
	})
}

func replayC19(t *testing.T, raw json.RawMessage) (string, string) {
	var sc C19Script
	if err := json.Unmarshal(raw, &sc); err != nil {
		return "harness", err.Error()
	}
	k, m, _ := judgeC19(t, sc)
	return k, m
}
