// Package mdnssim is engine E5: the real mdns.MdnsManager with a fake mDNS
// provider, and the real AvahiProvider with a fake Avahi daemon, inside a
// testing/synctest bubble.
package mdnssim

import (
	"errors"
	"fmt"
	"sync"
	"time"

	"github.com/enbility/go-avahi"
	dbus "github.com/godbus/dbus/v5"

	"github.com/enbility/ship-go/api"
)

// ---- fake mDNS provider for the manager --------------------------------------

type Announcement struct {
	Name string
	Port int
	Txt  []string
}

type FakeProvider struct {
	mu          sync.Mutex
	CB          api.MdnsResolveCB
	Announces   []Announcement
	Unannounces int
	Shutdowns   int
	AnnounceErr error
}

func (p *FakeProvider) Start(autoReconnect bool, cb api.MdnsResolveCB) bool {
	p.mu.Lock()
	defer p.mu.Unlock()
	p.CB = cb
	return true
}
func (p *FakeProvider) Shutdown() { p.mu.Lock(); p.Shutdowns++; p.mu.Unlock() }
func (p *FakeProvider) Announce(name string, port int, txt []string) error {
	p.mu.Lock()
	defer p.mu.Unlock()
	if p.AnnounceErr != nil {
		return p.AnnounceErr
	}
	p.Announces = append(p.Announces, Announcement{name, port, append([]string(nil), txt...)})
	return nil
}
func (p *FakeProvider) Unannounce() { p.mu.Lock(); p.Unannounces++; p.mu.Unlock() }

func (p *FakeProvider) Last() (Announcement, bool) {
	p.mu.Lock()
	defer p.mu.Unlock()
	if len(p.Announces) == 0 {
		return Announcement{}, false
	}
	return p.Announces[len(p.Announces)-1], true
}

// ---- fake Avahi daemon ---------------------------------------------------------

var errNotConnected = errors.New("fake avahi: not connected")

type fakeGroup struct {
	srv       *FakeAvahi
	gen       int
	id        int
	Services  []avahi.Service
	Committed bool
	Freed     bool
}

type fakeBrowser struct {
	srv    *FakeAvahi
	gen    int
	id     int
	add    chan avahi.Service
	remove chan avahi.Service
	Freed  bool
}

// FakeAvahi implements avahi.ServerInterface as far as the provider uses it;
// it mirrors go-avahi's Server: a disconnect (daemon gone, D-Bus gone or an
// explicit Shutdown) frees every server-side object and emits Disconnected on
// a new goroutine.
type FakeAvahi struct {
	mu         sync.Mutex
	Available  bool // the daemon can be reached
	connected  bool
	gen        int
	cb         avahi.EventCB
	groups     []*fakeGroup
	browsers   []*fakeBrowser
	known      map[string]avahi.Service // resolvable services by name
	emitOnFree *avahi.Service
	holdNext   bool // the next ResolveService call blocks until ReleaseResolve
	holdCh     chan struct{}
	Holding    bool

	SetupCalls, SetupOK  int
	BrowserNew, GroupNew int
	Log                  []string
}

func NewFakeAvahi() *FakeAvahi {
	return &FakeAvahi{Available: true, known: map[string]avahi.Service{}}
}

func (s *FakeAvahi) logf(f string, a ...any) { s.Log = append(s.Log, fmt.Sprintf(f, a...)) }

func (s *FakeAvahi) Setup(cb avahi.EventCB) error {
	s.mu.Lock()
	defer s.mu.Unlock()
	s.SetupCalls++
	if !s.Available {
		s.logf("setup: unavailable")
		return errors.New("fake avahi: daemon not available")
	}
	// a new connection; objects of an older one are gone
	s.invalidateLocked()
	s.cb = cb
	s.connected = true
	s.gen++
	s.SetupOK++
	s.logf("setup: ok gen=%d", s.gen)
	return nil
}

func (s *FakeAvahi) Start() {}

func (s *FakeAvahi) invalidateLocked() {
	for _, g := range s.groups {
		if g.gen == s.gen {
			g.Freed = true
		}
	}
	for _, b := range s.browsers {
		if b.gen == s.gen {
			b.Freed = true
		}
	}
}

func (s *FakeAvahi) disconnectLocked(why string) {
	if !s.connected {
		return
	}
	s.connected = false
	s.invalidateLocked()
	s.logf("disconnected (%s) gen=%d", why, s.gen)
	if s.cb != nil {
		go s.cb(avahi.Disconnected)
	}
}

// Shutdown mirrors Server.Shutdown: closing the connection also emits Disconnected.
func (s *FakeAvahi) Shutdown() {
	s.mu.Lock()
	defer s.mu.Unlock()
	s.disconnectLocked("Shutdown()")
}

// DaemonDisconnect: the daemon or D-Bus goes away (harness event).
func (s *FakeAvahi) DaemonDisconnect(availableAfterwards bool) {
	s.mu.Lock()
	defer s.mu.Unlock()
	s.Available = availableAfterwards
	s.disconnectLocked("daemon")
}

func (s *FakeAvahi) SetAvailable(v bool) {
	s.mu.Lock()
	s.Available = v
	s.mu.Unlock()
}

func (s *FakeAvahi) GetAPIVersion() (int32, error) {
	s.mu.Lock()
	defer s.mu.Unlock()
	if !s.connected {
		return 0, errNotConnected
	}
	return 515, nil
}

func (s *FakeAvahi) EntryGroupNew() (avahi.EntryGroupInterface, error) {
	s.mu.Lock()
	defer s.mu.Unlock()
	if !s.connected {
		return nil, errNotConnected
	}
	s.GroupNew++
	g := &fakeGroup{srv: s, gen: s.gen, id: len(s.groups)}
	s.groups = append(s.groups, g)
	return g, nil
}

func (s *FakeAvahi) EntryGroupFree(r avahi.EntryGroupInterface) {
	s.mu.Lock()
	defer s.mu.Unlock()
	if g, ok := r.(*fakeGroup); ok && g != nil {
		g.Freed = true
	}
}

func (s *FakeAvahi) ServiceBrowserNew(addChan, removeChan chan avahi.Service, iface, protocol int32, serviceType string, domain string, flags uint32) (avahi.ServiceBrowserInterface, error) {
	s.mu.Lock()
	defer s.mu.Unlock()
	if !s.connected {
		return nil, errNotConnected
	}
	s.BrowserNew++
	b := &fakeBrowser{srv: s, gen: s.gen, id: len(s.browsers), add: addChan, remove: removeChan}
	s.browsers = append(s.browsers, b)
	return b, nil
}

func (s *FakeAvahi) ServiceBrowserFree(r avahi.ServiceBrowserInterface) {
	s.mu.Lock()
	b, _ := r.(*fakeBrowser)
	emit := s.emitOnFree
	s.emitOnFree = nil
	live := b != nil && !b.Freed && b.gen == s.gen && s.connected
	if emit != nil && live {
		s.known[emit.Name] = *emit
	}
	s.mu.Unlock()
	if emit != nil && live {
		// a service is found at the very moment the browser is being given up: the daemon delivers it
		// before the free call returns (the client still listens on the channel)
		brief := avahi.Service{Interface: emit.Interface, Protocol: emit.Protocol, Name: emit.Name, Type: emit.Type, Domain: emit.Domain}
		select {
		case b.add <- brief:
		case <-time.After(time.Second):
		}
	}
	s.mu.Lock()
	if b != nil {
		b.Freed = true
	}
	s.mu.Unlock()
}

// EmitOnFree: the next ServiceBrowserFree call delivers this service before it returns.
func (s *FakeAvahi) EmitOnFree(svc avahi.Service) {
	s.mu.Lock()
	s.emitOnFree = &svc
	s.mu.Unlock()
}

func (s *FakeAvahi) ResolveService(iface, protocol int32, name, serviceType, domain string, aprotocol int32, flags uint32) (avahi.Service, error) {
	s.mu.Lock()
	defer s.mu.Unlock()
	if !s.connected {
		return avahi.Service{}, errNotConnected
	}
	if s.holdNext {
		// a slow D-Bus round trip: the call returns only when the harness lets it
		s.holdNext = false
		ch := make(chan struct{})
		s.holdCh = ch
		s.Holding = true
		s.mu.Unlock()
		<-ch
		s.mu.Lock()
		s.Holding = false
		if !s.connected {
			return avahi.Service{}, errNotConnected
		}
	}
	svc, ok := s.known[name]
	if !ok {
		return avahi.Service{}, errors.New("fake avahi: timeout resolving " + name)
	}
	return svc, nil
}

// HoldNextResolve makes the next ResolveService call block until ReleaseResolve.
func (s *FakeAvahi) HoldNextResolve() {
	s.mu.Lock()
	s.holdNext = true
	s.mu.Unlock()
}

// ReleaseResolve lets a held ResolveService call return (and cancels a hold that was not used).
func (s *FakeAvahi) ReleaseResolve() {
	s.mu.Lock()
	ch := s.holdCh
	s.holdCh = nil
	s.holdNext = false
	s.mu.Unlock()
	if ch != nil {
		close(ch)
	}
}

// IsHolding reports whether a ResolveService call is currently held.
func (s *FakeAvahi) IsHolding() bool {
	s.mu.Lock()
	defer s.mu.Unlock()
	return s.Holding
}

// Emit sends a browse result to the live browser, like go-avahi's signal
// dispatch does (holding the server mutex while sending). Returns false if no
// live browser exists.
func (s *FakeAvahi) Emit(svc avahi.Service, remove bool) bool {
	s.mu.Lock()
	defer s.mu.Unlock()
	if !remove {
		s.known[svc.Name] = svc
	}
	if !s.connected {
		return false
	}
	for _, b := range s.browsers {
		if b.gen == s.gen && !b.Freed {
			brief := avahi.Service{Interface: svc.Interface, Protocol: svc.Protocol, Name: svc.Name, Type: svc.Type, Domain: svc.Domain}
			if remove {
				b.remove <- brief
			} else {
				b.add <- brief
			}
			return true
		}
	}
	return false
}

// View is what the daemon currently holds for this client.
type View struct {
	Connected    bool
	LiveBrowsers int
	LiveGroups   [][]string // TXT (as strings) of every committed, not freed group of the current connection
	Uncommitted  int
}

func (s *FakeAvahi) View() View {
	s.mu.Lock()
	defer s.mu.Unlock()
	v := View{Connected: s.connected}
	if !s.connected {
		return v
	}
	for _, b := range s.browsers {
		if b.gen == s.gen && !b.Freed {
			v.LiveBrowsers++
		}
	}
	for _, g := range s.groups {
		if g.gen == s.gen && !g.Freed {
			if !g.Committed {
				v.Uncommitted++
				continue
			}
			var txt []string
			if len(g.Services) > 0 {
				for _, t := range g.Services[0].Txt {
					txt = append(txt, string(t))
				}
			}
			v.LiveGroups = append(v.LiveGroups, txt)
		}
	}
	return v
}

// groupsInGen: entry groups created on the current connection.
func (s *FakeAvahi) groupsInGen() int {
	s.mu.Lock()
	defer s.mu.Unlock()
	n := 0
	for _, g := range s.groups {
		if g.gen == s.gen {
			n++
		}
	}
	return n
}

func (s *FakeAvahi) Counters() (setupCalls, setupOK, browsers, groups int) {
	s.mu.Lock()
	defer s.mu.Unlock()
	return s.SetupCalls, s.SetupOK, s.BrowserNew, s.GroupNew
}

// entry group

func (g *fakeGroup) alive() error {
	if !g.srv.connected || g.gen != g.srv.gen || g.Freed {
		return errNotConnected
	}
	return nil
}

func (g *fakeGroup) Commit() error {
	g.srv.mu.Lock()
	defer g.srv.mu.Unlock()
	if err := g.alive(); err != nil {
		return err
	}
	if len(g.Services) == 0 {
		return errors.New("fake avahi: commit of an empty group")
	}
	g.Committed = true
	return nil
}

func (g *fakeGroup) AddService(iface, protocol int32, flags uint32, name, serviceType, domain, host string, port uint16, txt [][]byte) error {
	g.srv.mu.Lock()
	defer g.srv.mu.Unlock()
	if err := g.alive(); err != nil {
		return err
	}
	cp := make([][]byte, len(txt))
	for i := range txt {
		cp[i] = append([]byte(nil), txt[i]...)
	}
	g.Services = append(g.Services, avahi.Service{Interface: iface, Protocol: protocol, Name: name, Type: serviceType, Domain: domain, Host: host, Port: port, Txt: cp})
	return nil
}

func (g *fakeGroup) Reset() error                      { panic("fake avahi: Reset not modelled") }
func (g *fakeGroup) GetState() (int32, error)          { panic("fake avahi: GetState not modelled") }
func (g *fakeGroup) IsEmpty() (bool, error)            { panic("fake avahi: IsEmpty not modelled") }
func (g *fakeGroup) DispatchSignal(*dbus.Signal) error { return nil }
func (g *fakeGroup) GetObjectPath() dbus.ObjectPath {
	return dbus.ObjectPath(fmt.Sprintf("/group/%d", g.id))
}
func (g *fakeGroup) Free() {}
func (g *fakeGroup) AddServiceSubtype(iface, protocol int32, flags uint32, name, serviceType, domain, subtype string) error {
	panic("fake avahi: not modelled")
}
func (g *fakeGroup) UpdateServiceTxt(iface, protocol int32, flags uint32, name, serviceType, domain string, txt [][]byte) error {
	panic("fake avahi: not modelled")
}
func (g *fakeGroup) AddAddress(iface, protocol int32, flags uint32, name, address string) error {
	panic("fake avahi: not modelled")
}
func (g *fakeGroup) AddRecord(iface, protocol int32, flags uint32, name string, class, recordType uint16, ttl uint32, rdata []byte) error {
	panic("fake avahi: not modelled")
}

func (b *fakeBrowser) DispatchSignal(*dbus.Signal) error { return nil }
func (b *fakeBrowser) GetObjectPath() dbus.ObjectPath {
	return dbus.ObjectPath(fmt.Sprintf("/browser/%d", b.id))
}
func (b *fakeBrowser) Free() {}

// ---- the rest of ServerInterface is not used by the provider -------------------

func nm() { panic("fake avahi: method not modelled") }

func (s *FakeAvahi) ResolveHostName(iface, protocol int32, name string, aprotocol int32, flags uint32) (avahi.HostName, error) {
	nm()
	return avahi.HostName{}, nil
}
func (s *FakeAvahi) ResolveAddress(iface, protocol int32, address string, flags uint32) (avahi.Address, error) {
	nm()
	return avahi.Address{}, nil
}
func (s *FakeAvahi) DomainBrowserNew(iface, protocol int32, domain string, btype int32, flags uint32) (avahi.DomainBrowserInterface, error) {
	nm()
	return nil, nil
}
func (s *FakeAvahi) DomainBrowserFree(r avahi.DomainBrowserInterface) { nm() }
func (s *FakeAvahi) ServiceTypeBrowserNew(iface, protocol int32, domain string, flags uint32) (avahi.ServiceTypeBrowserInterface, error) {
	nm()
	return nil, nil
}
func (s *FakeAvahi) ServiceTypeBrowserFree(r avahi.ServiceTypeBrowserInterface) { nm() }
func (s *FakeAvahi) ServiceResolverNew(iface, protocol int32, name, serviceType, domain string, aprotocol int32, flags uint32) (avahi.ServiceResolverInterface, error) {
	nm()
	return nil, nil
}
func (s *FakeAvahi) ServiceResolverFree(r avahi.ServiceResolverInterface) { nm() }
func (s *FakeAvahi) HostNameResolverNew(iface, protocol int32, name string, aprotocol int32, flags uint32) (avahi.HostNameResolverInterface, error) {
	nm()
	return nil, nil
}
func (s *FakeAvahi) AddressResolverNew(iface, protocol int32, address string, flags uint32) (avahi.AddressResolverInterface, error) {
	nm()
	return nil, nil
}
func (s *FakeAvahi) AddressResolverFree(r avahi.AddressResolverInterface) { nm() }
func (s *FakeAvahi) RecordBrowserNew(iface, protocol int32, name string, class uint16, recordType uint16, flags uint32) (avahi.RecordBrowserInterface, error) {
	nm()
	return nil, nil
}
func (s *FakeAvahi) RecordBrowserFree(r avahi.RecordBrowserInterface)      { nm() }
func (s *FakeAvahi) GetAlternativeHostName(name string) (string, error)    { nm(); return "", nil }
func (s *FakeAvahi) GetAlternativeServiceName(name string) (string, error) { nm(); return "", nil }
func (s *FakeAvahi) GetDomainName() (string, error)                        { nm(); return "", nil }
func (s *FakeAvahi) GetHostName() (string, error)                          { nm(); return "", nil }
func (s *FakeAvahi) GetHostNameFqdn() (string, error)                      { nm(); return "", nil }
func (s *FakeAvahi) GetLocalServiceCookie() (int32, error)                 { nm(); return 0, nil }
func (s *FakeAvahi) GetNetworkInterfaceIndexByName(name string) (int32, error) {
	nm()
	return 0, nil
}
func (s *FakeAvahi) GetNetworkInterfaceNameByIndex(index int32) (string, error) {
	nm()
	return "", nil
}
func (s *FakeAvahi) GetState() (int32, error)             { nm(); return 0, nil }
func (s *FakeAvahi) GetVersionString() (string, error)    { nm(); return "", nil }
func (s *FakeAvahi) IsNSSSupportAvailable() (bool, error) { nm(); return false, nil }
func (s *FakeAvahi) SetServerName(name string) error      { nm(); return nil }

var _ avahi.ServerInterface = (*FakeAvahi)(nil)
