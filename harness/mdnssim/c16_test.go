package mdnssim

import (
	"encoding/json"
	"fmt"
	"strings"
	"sync"
	"testing"
	"testing/synctest"
	"time"
	"unicode/utf8"

	"github.com/enbility/go-avahi"
	"pgregory.net/rapid"

	"github.com/enbility/ship-go/api"
	"github.com/enbility/ship-go/mdns"
	"verifharness/core"
)

// C16Script: one service configuration.
type C16Script struct {
	Ski, Brand, Model, Type, Serial, ID, Name string
	Categories                                []uint
	NilCategories                             bool
	AutoAccept                                bool
	Port                                      int
	// Life: what happens to the announcement before it is read: unannounce | announce | auto:true | auto:false
	// (the service is announced again at the end if it is not)
	Life []string `json:",omitempty"`
}

const (
	KeyTxtEquals  = "C16/equals-sign-in-value"
	KeyTruncation = "C16/truncation-splits-rune"
	KeyQRSep      = "C16/qr-unsanitised-ski-or-id"
)

func cats(sc C16Script) []api.DeviceCategoryType {
	if sc.NilCategories {
		return nil
	}
	out := []api.DeviceCategoryType{}
	for _, c := range sc.Categories {
		out = append(out, api.DeviceCategoryType(c))
	}
	return out
}

type c16Obs struct {
	Auto  bool // the auto accept value in force when the announcement was read
	Txt   []string
	QR    string
	Entry *api.MdnsEntry
	Herr  string
}

func runC16(sc C16Script) *c16Obs {
	o := &c16Obs{}
	m1 := mdns.NewMDNS(sc.Ski, sc.Brand, sc.Model, sc.Type, sc.Serial, cats(sc), sc.ID, sc.Name, sc.Port, nil, mdns.MdnsProviderSelectionAll)
	fp := &FakeProvider{}
	if err := m1.VerifStartWithProvider(fp, nil); err != nil {
		o.Herr = err.Error()
		return o
	}
	m1.SetAutoAccept(sc.AutoAccept)
	o.Auto = sc.AutoAccept
	announced := true
	for _, op := range sc.Life {
		switch op {
		case "unannounce":
			m1.UnannounceMdnsEntry()
			announced = false
		case "announce":
			_ = m1.AnnounceMdnsEntry()
			announced = true
		case "auto:true", "auto:false":
			o.Auto = op == "auto:true"
			m1.SetAutoAccept(o.Auto)
		}
	}
	if !announced {
		_ = m1.AnnounceMdnsEntry()
	}
	ann, ok := fp.Last()
	if !ok {
		o.Herr = "nothing announced"
		return o
	}
	o.Txt = ann.Txt
	o.QR = m1.QRCodeText()

	// a second manager browses through the real Avahi provider (fake daemon)
	daemon := NewFakeAvahi()
	prov := mdns.NewAvahiProviderWithServer([]int32{avahi.InterfaceUnspec}, daemon)
	m2 := mdns.NewMDNS("ffffffffffffffffffffffffffffffffffffffff", "b", "m", "t", "s", nil, "browser-id", "browser", 4712, nil, mdns.MdnsProviderSelectionAll)
	if err := m2.VerifStartWithProvider(prov, nil); err != nil {
		o.Herr = "browser manager: " + err.Error()
		return o
	}
	synctest.Wait()
	var btxt [][]byte
	for _, t := range ann.Txt {
		btxt = append(btxt, []byte(t))
	}
	port := ann.Port
	daemon.Emit(avahi.Service{Interface: 2, Protocol: avahi.ProtoInet, Name: ann.Name, Type: "_ship._tcp", Domain: "local", Host: "host.local",
		Address: "192.168.1.5", Port: uint16(port), Txt: btxt}, false)
	synctest.Wait()
	for _, e := range m2.VerifEntries() {
		o.Entry = e
	}
	m2.Shutdown()
	m1.Shutdown()
	time.Sleep(5 * time.Second)
	synctest.Wait()
	return o
}

func txtMap(txt []string) map[string]string {
	m := map[string]string{}
	for _, t := range txt {
		k, v, _ := strings.Cut(t, "=")
		m[k] = v
	}
	return m
}

func catsString(sc C16Script) string {
	var p []string
	for _, c := range cats(sc) {
		p = append(p, fmt.Sprint(uint(c)))
	}
	return strings.Join(p, ",")
}

// qrParse is the reference parser of SHIP;SKI:..;ID:..;(KEY:value;)*ENDSHIP;
func qrParse(qr string) (keys, vals []string, err error) {
	if !strings.HasPrefix(qr, "SHIP;") || !strings.HasSuffix(qr, "ENDSHIP;") {
		return nil, nil, fmt.Errorf("missing SHIP; / ENDSHIP; frame")
	}
	body := strings.TrimSuffix(strings.TrimPrefix(qr, "SHIP;"), "ENDSHIP;")
	if body == "" {
		return nil, nil, nil
	}
	if !strings.HasSuffix(body, ";") {
		return nil, nil, fmt.Errorf("field not terminated by ';'")
	}
	for _, seg := range strings.Split(strings.TrimSuffix(body, ";"), ";") {
		k, v, ok := strings.Cut(seg, ":")
		if !ok {
			return nil, nil, fmt.Errorf("segment %q has no ':'", seg)
		}
		keys = append(keys, k)
		vals = append(vals, v)
	}
	return keys, vals, nil
}

func judgeC16(t *testing.T, sc C16Script) (key, msg string) {
	var o *c16Obs
	var mu sync.Mutex
	err := core.Bubble(t, func() {
		x := runC16(sc)
		mu.Lock()
		o = x
		mu.Unlock()
	})
	mu.Lock()
	defer mu.Unlock()
	if core.IsInconclusive(err) {
		return "inconclusive", err.Error()
	}
	if o == nil {
		return "harness/bubble", fmt.Sprint(err)
	}
	if o.Herr != "" {
		return "harness", o.Herr
	}
	tm := txtMap(o.Txt)
	// (1) descriptive values: <= 32 bytes, prefix of the input, valid UTF-8 if the input was
	announced := map[string]string{}
	for _, f := range []struct{ k, in string }{{"brand", sc.Brand}, {"model", sc.Model}, {"type", sc.Type}, {"serial", sc.Serial}} {
		v, present := tm[f.k]
		if !present {
			if f.k == "serial" && f.in == "" {
				continue
			}
			return "C16/txt-missing-key", fmt.Sprintf("announced TXT has no %q: %q", f.k, o.Txt)
		}
		announced[f.k] = v
		if len(v) > 32 {
			return "C16/too-long", fmt.Sprintf("announced %s is %d bytes: %q", f.k, len(v), v)
		}
		if !strings.HasPrefix(f.in, v) {
			return "C16/not-a-prefix", fmt.Sprintf("announced %s %q is not a prefix of the configured %q", f.k, v, f.in)
		}
		if len(f.in) <= 32 && v != f.in {
			return "C16/shortened-without-need", fmt.Sprintf("announced %s %q differs from the configured %q", f.k, v, f.in)
		}
		if utf8.ValidString(f.in) && !utf8.ValidString(v) {
			return KeyTruncation, fmt.Sprintf("announced %s %q is not valid UTF-8 although the configured %q is (cut inside a multi-byte rune)", f.k, v, f.in)
		}
	}
	// (2) what a ship-go browser reads back
	e := o.Entry
	eq := strings.ContainsRune(sc.Ski+sc.ID+announced["brand"]+announced["model"]+announced["type"]+announced["serial"], '=')
	k2 := "C16/readback"
	if eq {
		k2 = KeyTxtEquals
	}
	if e == nil {
		return k2, fmt.Sprintf("the announced TXT %q produced no entry on a ship-go browser", o.Txt)
	}
	want := []struct{ name, got, want string }{
		{"ski", e.Ski, sc.Ski}, {"identifier", e.Identifier, sc.ID}, {"path", e.Path, "/ship/"},
		{"brand", e.Brand, announced["brand"]}, {"model", e.Model, announced["model"]}, {"type", e.Type, announced["type"]}, {"serial", e.Serial, announced["serial"]},
	}
	for _, w := range want {
		if w.got != w.want {
			return k2, fmt.Sprintf("browser read %s=%q, announced was %q (TXT %q)", w.name, w.got, w.want, o.Txt)
		}
	}
	if e.Register != o.Auto {
		return "C16/readback", fmt.Sprintf("browser read register=%v, configured auto accept=%v (life of the announcement: %v)", e.Register, o.Auto, sc.Life)
	}
	wc := cats(sc)
	if len(e.Categories) != len(wc) {
		return "C16/readback", fmt.Sprintf("browser read categories %v, configured %v", e.Categories, wc)
	}
	for i := range wc {
		if e.Categories[i] != wc[i] {
			return "C16/readback", fmt.Sprintf("browser read categories %v, configured %v", e.Categories, wc)
		}
	}
	// (3) QR code text
	keys, vals, perr := qrParse(o.QR)
	strip := func(s string) string { return strings.ReplaceAll(s, ";", "") }
	wantK := []string{"SKI", "ID"}
	wantV := []string{strip(sc.Ski), strip(sc.ID)}
	for _, f := range []struct{ k, v string }{{"BRAND", announced["brand"]}, {"TYPE", announced["type"]}, {"MODEL", announced["model"]}, {"SERIAL", announced["serial"]}, {"CAT", catsString(sc)}} {
		if f.v != "" {
			wantK = append(wantK, f.k)
			wantV = append(wantV, strip(f.v))
		}
	}
	kq := "C16/qr"
	if strings.Contains(sc.Ski+sc.ID, ";") {
		kq = KeyQRSep
	}
	if perr != nil {
		return kq, fmt.Sprintf("QR text %q does not parse: %v", o.QR, perr)
	}
	if strings.Join(keys, "\x00") != strings.Join(wantK, "\x00") || strings.Join(vals, "\x00") != strings.Join(wantV, "\x00") {
		return kq, fmt.Sprintf("QR text %q parses to %q=%q, expected %q=%q", o.QR, keys, vals, wantK, wantV)
	}
	return "", ""
}

var fieldPieces = []string{"a", "B", "0", " ", "=", ";", ":", ",", "é", "€", "😀", "ß", "日本", "-", "_", "Demo", "EVSE", "HeatPump", "x=y", ";;", "ENDSHIP", "SHIP;"}

func genField(t *rapid.T, label string, o fieldOpts) string {
	var s string
	switch rapid.IntRange(0, 6).Draw(t, label+"Kind") {
	case 0:
		s = ""
	case 1:
		s = rapid.StringMatching(`[A-Za-z0-9 _-]{1,20}`).Draw(t, label)
	case 2: // around the 32 byte boundary with multi-byte runes straddling it
		n := rapid.IntRange(28, 34).Draw(t, label+"Pad")
		s = strings.Repeat("a", n) + rapid.SampledFrom([]string{"é", "€", "😀", "ab", "日"}).Draw(t, label+"Rune") + rapid.StringMatching(`[a-z]{0,6}`).Draw(t, label+"Tail")
	case 3:
		s = strings.Join(rapid.SliceOfN(rapid.SampledFrom(fieldPieces), 1, 14).Draw(t, label), "")
	case 4:
		s = rapid.StringN(0, 40, 80).Draw(t, label)
	default:
		s = strings.Join(rapid.SliceOfN(rapid.SampledFrom([]string{"Demo", "-", "EVSE", "é", "0", "1", " ", "€"}), 1, 12).Draw(t, label), "")
	}
	s = strings.ToValidUTF8(s, "?")
	s = strings.ReplaceAll(s, "\x00", "0")
	if o.noEquals {
		s = strings.ReplaceAll(s, "=", "-")
	}
	if o.noSemicolon {
		s = strings.ReplaceAll(s, ";", ",")
	}
	if o.asciiBoundary && len(s) > 32 && !utf8.ValidString(s[:32]) {
		s = s[:31] + "a" + s[31:]
		for !utf8.ValidString(s[:32]) || !utf8.ValidString(s) {
			s = strings.ToValidUTF8(s[:32], "") + "pad" + strings.Repeat("a", 32)
		}
	}
	return s
}

type fieldOpts struct{ noEquals, noSemicolon, asciiBoundary bool }

func genC16(t *rapid.T) C16Script {
	desc := fieldOpts{noEquals: core.Excluded(KeyTxtEquals), asciiBoundary: core.Excluded(KeyTruncation)}
	ident := fieldOpts{noEquals: core.Excluded(KeyTxtEquals), noSemicolon: core.Excluded(KeyQRSep)}
	sc := C16Script{
		Brand: genField(t, "brand", desc), Model: genField(t, "model", desc), Type: genField(t, "type", desc), Serial: genField(t, "serial", desc),
		AutoAccept: rapid.Bool().Draw(t, "auto"), Port: rapid.IntRange(1, 65535).Draw(t, "port"),
		Life: rapid.SliceOfN(rapid.SampledFrom([]string{"unannounce", "announce", "auto:true", "auto:false"}), 0, 5).Draw(t, "life"),
	}
	if rapid.IntRange(0, 3).Draw(t, "skiKind") == 0 {
		sc.Ski = genField(t, "ski", ident)
	} else {
		sc.Ski = rapid.StringMatching(`[0-9a-f]{40}`).Draw(t, "ski")
	}
	if sc.Ski == "" || sc.Ski == "ffffffffffffffffffffffffffffffffffffffff" {
		sc.Ski = "00"
	}
	sc.ID = genField(t, "id", ident)
	sc.Name = rapid.StringMatching(`[A-Za-z0-9-]{1,20}`).Draw(t, "name")
	switch rapid.IntRange(0, 3).Draw(t, "catKind") {
	case 0:
		sc.NilCategories = true
	case 1:
		sc.Categories = []uint{}
	default:
		sc.Categories = rapid.SliceOfN(rapid.SampledFrom([]uint{1, 2, 3, 4, 5, 6, 7, 0, 8, 99, 4294967295}), 1, 7).Draw(t, "cats")
	}
	return sc
}

// TestC16 — what a service announces is what a ship-go browser reads back; QR text parses back.
func TestC16(t *testing.T) {
	st := core.Begin(t, "C16", "mdnssim")
	defer st.End()
	rapid.Check(t, func(rt *rapid.T) {
		sc := genC16(rt)
		key, msg := judgeC16(t, sc)
		if key == "inconclusive" {
			st.AddInconclusive()
			return
		}
		all := sc.Brand + sc.Model + sc.Type + sc.Serial + sc.ID + sc.Ski
		long := len(sc.Brand) > 32 || len(sc.Model) > 32 || len(sc.Type) > 32 || len(sc.Serial) > 32
		sep := strings.ContainsAny(all, "=;:,")
		st.Case(sc, long || sep, "field>32bytes:"+b2s(long), "separator-char:"+b2s(sep))
		if key != "" {
			st.Fail(key, msg, sc)
			rt.Fatalf("%s: %s", key, msg)
		}
	})
}

func b2s(b bool) string {
	if b {
		return "yes"
	}
	return "no"
}

func replayC16(t *testing.T, raw json.RawMessage) (string, string) {
	var sc C16Script
	if err := json.Unmarshal(raw, &sc); err != nil {
		return "harness", err.Error()
	}
	return judgeC16(t, sc)
}
