package mdnssim

import (
	"crypto/tls"
	"encoding/json"
	"fmt"
	"net"
	"runtime"
	"sort"
	"strings"
	"sync"
	"testing"
	"testing/synctest"
	"time"

	"pgregory.net/rapid"

	"github.com/enbility/ship-go/api"
	"github.com/enbility/ship-go/hub"
	"github.com/enbility/ship-go/mdns"
	"verifharness/core"
)

const localSKI = "aaaaaaaaaaaaaaaaaaaaaaaaaaaaaaaaaaaaaaaa"

// C17Event is one resolver callback.
type C17Event struct {
	Svc     int      `json:"svc"`               // which of the services (0..4)
	Remove  bool     `json:"remove"`            //
	Invalid string   `json:"invalid,omitempty"` // "", missing:<key>, txtvers, register, localski
	Addrs   []string `json:"addrs"`
	// Change: the record is valid but one descriptive TXT value differs from the service's usual one
	// (a device that was reconfigured: register | brand | serial)
	Change string `json:"change,omitempty"`
	Yield  bool   `json:"yield"` // quiescence (synctest.Wait) after this event; otherwise the next event follows in the same burst
}

type C17Script struct {
	Events []C17Event `json:"events"`
	Procs  int        `json:"procs"`  // GOMAXPROCS during the case
	SlowMs int        `json:"slowMs"` // the application needs this many virtual ms to process a visible-services update
}

type svcModel struct {
	Name, Ski, ID, Brand, Type, Model, Serial string
	Register                                  bool
	Cats                                      []uint
	Addrs                                     []string
	// Varied: records with differing descriptive values were reported for this service. Which of
	// them the entry shows is not stated by the property; addresses and presence are still compared
	Varied bool
}

func svcTxt(i int) map[string]string {
	return map[string]string{"txtvers": "1", "path": "/ship/", "id": fmt.Sprintf("id-%d", i), "ski": fmt.Sprintf("%040d", i+1),
		"brand": fmt.Sprintf("brand%d", i), "model": fmt.Sprintf("model%d", i%2), "type": "EVSE", "serial": fmt.Sprintf("s%d", i),
		"register": map[bool]string{true: "true", false: "false"}[i%2 == 0], "cat": "2,3"}
}

func usable(ip net.IP) bool { return !(ip.To4() == nil && ip.IsLinkLocalUnicast()) }

type visible struct {
	Seq  int
	List []api.RemoteService
}

type c17Reader struct {
	mu    sync.Mutex
	seq   int
	Calls []visible
	slow  time.Duration
}

func (r *c17Reader) RemoteSKIConnected(string)    {}
func (r *c17Reader) RemoteSKIDisconnected(string) {}
func (r *c17Reader) SetupRemoteDevice(string, api.ShipConnectionDataWriterInterface) api.ShipConnectionDataReaderInterface {
	return nil
}
func (r *c17Reader) VisibleRemoteServicesUpdated(entries []api.RemoteService) {
	r.mu.Lock()
	r.seq++
	r.Calls = append(r.Calls, visible{r.seq, append([]api.RemoteService(nil), entries...)})
	r.mu.Unlock()
	if r.slow > 0 {
		// further mDNS events arrive while the application is busy with this update. Wall-clock
		// pause: reports waiting for the manager's report mutex would freeze the virtual clock.
		core.RealSleep(r.slow)
	}
}
func (r *c17Reader) ServiceShipIDUpdate(string, string)                            {}
func (r *c17Reader) ServicePairingDetailUpdate(string, *api.ConnectionStateDetail) {}
func (r *c17Reader) AllowWaitingForTrust(string) bool                              { return false }

func entryKey(name, ski, id, brand, typ, model, serial string, cats []uint) string {
	return fmt.Sprintf("%s|%s|%s|%s|%s|%s|%s|%v", name, ski, id, brand, typ, model, serial, cats)
}

func catsOf(c []api.DeviceCategoryType) []uint {
	var o []uint
	for _, x := range c {
		o = append(o, uint(x))
	}
	return o
}

type c17Result struct {
	Mismatch string // entries != model after some event
	Final    string
	Changes  int
	Herr     string
}

func runC17(sc C17Script) *c17Result {
	res := &c17Result{}
	rd := &c17Reader{slow: time.Duration(sc.SlowMs) * time.Millisecond}
	mgr := mdns.NewMDNS(localSKI, "b", "m", "t", "s", nil, "local-id", "local", 4711, nil, mdns.MdnsProviderSelectionAll)
	h := hub.NewHub(rd, mgr, 4711, tls.Certificate{}, api.NewServiceDetails(localSKI))
	defer h.Shutdown()
	fp := &FakeProvider{}
	if err := mgr.VerifStartWithProvider(fp, h); err != nil {
		res.Herr = err.Error()
		return res
	}
	cb := fp.CB
	model := map[string]*svcModel{}
	for i, ev := range sc.Events {
		txt := svcTxt(ev.Svc)
		valid := true
		switch {
		case strings.HasPrefix(ev.Invalid, "missing:"):
			delete(txt, strings.TrimPrefix(ev.Invalid, "missing:"))
			valid = false
		case ev.Invalid == "txtvers":
			txt["txtvers"] = "2"
			valid = false
		case ev.Invalid == "register":
			txt["register"] = "yes"
			valid = false
		case ev.Invalid == "localski":
			txt["ski"] = localSKI
			valid = false
		}
		switch ev.Change {
		case "register":
			txt["register"] = map[string]string{"true": "false", "false": "true"}[txt["register"]]
		case "brand":
			txt["brand"] = "rebranded"
		case "serial":
			txt["serial"] = "s-new"
		}
		var ips []net.IP
		for _, a := range ev.Addrs {
			ips = append(ips, net.ParseIP(a))
		}
		name := fmt.Sprintf("svc-%d", ev.Svc)
		cb(txt, name, name+".local", ips, 4000+ev.Svc, ev.Remove)
		// reference model
		ski := txt["ski"]
		if valid {
			m, known := model[ski]
			switch {
			case ev.Remove && known:
				delete(model, ski)
				res.Changes++
			case ev.Remove:
			case !known:
				m = &svcModel{Name: name, Ski: ski, ID: txt["id"], Brand: txt["brand"], Type: txt["type"], Model: txt["model"], Serial: txt["serial"],
					Register: txt["register"] == "true", Cats: []uint{2, 3}}
				for _, ip := range ips {
					if usable(ip) {
						m.Addrs = append(m.Addrs, ip.String())
					}
				}
				m.Varied = ev.Change != ""
				model[ski] = m
				res.Changes++
			default:
				if ev.Change != "" || m.Varied {
					m.Varied = true
				}
				for _, ip := range ips {
					if !usable(ip) {
						continue
					}
					dup := false
					for _, a := range m.Addrs {
						if a == ip.String() {
							dup = true
						}
					}
					if !dup {
						m.Addrs = append(m.Addrs, ip.String())
						res.Changes++
					}
				}
			}
		}
		// the manager's view equals the model after every event
		if res.Mismatch == "" {
			got := mgr.VerifEntries()
			if d := diffEntries(got, model); d != "" {
				res.Mismatch = fmt.Sprintf("after event %d (%+v): %s", i, ev, d)
			}
		}
		if ev.Yield {
			if sc.SlowMs > 0 {
				core.RealSleep(time.Duration(sc.SlowMs) * time.Millisecond / 2) // the next event lands inside a running delivery
			} else {
				synctest.Wait()
			}
		}
	}
	if sc.SlowMs > 0 {
		core.RealSleep(time.Duration(sc.SlowMs*(len(sc.Events)+3)) * time.Millisecond) // all deliveries done
	}
	synctest.Wait()
	time.Sleep(time.Second)
	synctest.Wait()
	// the last list delivered to the application equals the final set
	rd.mu.Lock()
	calls := append([]visible(nil), rd.Calls...)
	rd.mu.Unlock()
	if res.Changes > 0 {
		if len(calls) == 0 {
			res.Final = "the set of visible services changed but VisibleRemoteServicesUpdated was never called"
		} else {
			last := calls[len(calls)-1]
			var got, want []string
			for _, e := range last.List {
				if m := model[e.Ski]; m != nil && m.Varied {
					got = append(got, "varied|"+e.Ski)
					continue
				}
				got = append(got, entryKey(e.Name, e.Ski, e.Identifier, e.Brand, e.Type, e.Model, e.Serial, catsOf(e.Categories)))
			}
			for _, m := range model {
				if m.Varied {
					want = append(want, "varied|"+m.Ski)
					continue
				}
				want = append(want, entryKey(m.Name, m.Ski, m.ID, m.Brand, m.Type, m.Model, m.Serial, m.Cats))
			}
			sort.Strings(got)
			sort.Strings(want)
			if strings.Join(got, "\n") != strings.Join(want, "\n") {
				res.Final = fmt.Sprintf("last of %d delivered lists has %d services %v, the final set has %d: %v", len(calls), len(got), got, len(want), want)
			}
		}
	}
	mgr.Shutdown()
	return res
}

func diffEntries(got map[string]*api.MdnsEntry, model map[string]*svcModel) string {
	if len(got) != len(model) {
		return fmt.Sprintf("manager knows %d services, %d were announced and not removed", len(got), len(model))
	}
	for ski, m := range model {
		e, ok := got[ski]
		if !ok {
			return "service " + ski + " is missing"
		}
		if !m.Varied && (e.Name != m.Name || e.Identifier != m.ID || e.Brand != m.Brand || e.Type != m.Type || e.Model != m.Model || e.Serial != m.Serial ||
			e.Register != m.Register || e.Path != "/ship/" || fmt.Sprint(catsOf(e.Categories)) != fmt.Sprint(m.Cats)) {
			return fmt.Sprintf("service %s has fields %+v, announced %+v", ski, *e, *m)
		}
		var a []string
		for _, ip := range e.Addresses {
			a = append(a, ip.String())
		}
		if strings.Join(a, ",") != strings.Join(m.Addrs, ",") {
			return fmt.Sprintf("service %s has addresses %v, the usable reported ones are %v", ski, a, m.Addrs)
		}
	}
	return ""
}

func judgeC17(t *testing.T, sc C17Script) (key, msg string, res *c17Result) {
	old := runtime.GOMAXPROCS(sc.Procs)
	defer runtime.GOMAXPROCS(old)
	var mu sync.Mutex
	err := core.Bubble(t, func() {
		x := runC17(sc)
		mu.Lock()
		res = x
		mu.Unlock()
	})
	mu.Lock()
	defer mu.Unlock()
	if core.IsInconclusive(err) {
		return "inconclusive", err.Error(), nil
	}
	if res == nil {
		return "harness/bubble", fmt.Sprint(err), nil
	}
	if res.Herr != "" {
		return "harness", res.Herr, res
	}
	if res.Mismatch != "" {
		return "C17/entries-differ-from-history", res.Mismatch, res
	}
	if res.Final != "" {
		return "C17/stale-last-report", res.Final, res
	}
	if err != nil {
		return "C17/leak", err.Error(), res
	}
	return "", "", res
}

var c17Addrs = []string{"192.168.1.10", "192.168.1.11", "10.0.0.5", "2001:db8::1", "2001:db8::2", "fe80::1", "fe80::abcd"}

func genC17(t *rapid.T) C17Script {
	sc := C17Script{Procs: rapid.SampledFrom([]int{1, 2, 16}).Draw(t, "procs"), SlowMs: rapid.SampledFrom([]int{0, 0, 0, 2}).Draw(t, "slowMs")}
	// (a registered service with a fixed IPv4 makes the hub dial, which needs real sockets: that variant runs at hub level, TestC17Hub)
	n := rapid.IntRange(1, 30).Draw(t, "n")
	for i := 0; i < n; i++ {
		ev := C17Event{Svc: rapid.IntRange(0, 4).Draw(t, "svc"), Remove: rapid.IntRange(0, 3).Draw(t, "remove") == 0,
			Yield: rapid.IntRange(0, 2).Draw(t, "yield") == 0}
		if rapid.IntRange(0, 7).Draw(t, "invalidP") == 0 && !ev.Remove {
			ev.Invalid = rapid.SampledFrom([]string{"missing:txtvers", "missing:id", "missing:path", "missing:ski", "missing:register", "txtvers", "register", "localski"}).Draw(t, "invalid")
		}
		ev.Addrs = rapid.SliceOfN(rapid.SampledFrom(c17Addrs), 0, 3).Draw(t, "addrs")
		if ev.Invalid == "" && !ev.Remove && rapid.IntRange(0, 5).Draw(t, "changeP") == 0 {
			ev.Change = rapid.SampledFrom([]string{"register", "brand", "serial"}).Draw(t, "change")
		}
		if ev.Remove {
			ev.Addrs = nil // avahi reports removals without addresses
		}
		sc.Events = append(sc.Events, ev)
	}
	return sc
}

// TestC17 — the visible-services view tracks the mDNS history and the last report shows the final state.
func TestC17(t *testing.T) {
	st := core.Begin(t, "C17", "mdnssim")
	defer st.End()
	rapid.Check(t, func(rt *rapid.T) {
		sc := genC17(rt)
		key, msg, res := judgeC17(t, sc)
		if key == "inconclusive" {
			st.AddInconclusive()
			return
		}
		nt := false
		if res != nil && res.Changes >= 3 {
			for _, e := range sc.Events {
				if e.Remove {
					nt = true
				}
			}
		}
		burst := 0
		for _, e := range sc.Events {
			if !e.Yield {
				burst++
			}
		}
		st.Case(sc, nt, fmt.Sprintf("gomaxprocs:%d", sc.Procs), "has-burst:"+b2s(burst > 1), "slow-application:"+b2s(sc.SlowMs > 0))
		if key != "" {
			st.Fail(key, msg, sc)
			rt.Fatalf("%s: %s", key, msg)
		}
	})
}

func replayC17(t *testing.T, raw json.RawMessage) (string, string) {
	var sc C17Script
	if err := json.Unmarshal(raw, &sc); err != nil {
		return "harness", err.Error()
	}
	k, m, _ := judgeC17(t, sc)
	return k, m
}
