package mdnssim

import (
	"encoding/json"
	"fmt"
	"net"
	"sync"
	"testing"
	"testing/synctest"
	"time"

	"github.com/enbility/go-avahi"
	"pgregory.net/rapid"

	"github.com/enbility/ship-go/mdns"
	"verifharness/core"
)

// C08cEvent is one hostile mDNS input: either a direct resolver callback or a
// browse result resolved through the Avahi provider (parseTxt path).
type C08cEvent struct {
	Via    string            `json:"via"` // cb | avahi
	Txt    map[string]string `json:"txt,omitempty"`
	NilTxt bool              `json:"nilTxt,omitempty"`
	Raw    []string          `json:"raw,omitempty"` // avahi: raw TXT items
	Name   string            `json:"name"`
	Host   string            `json:"host"`
	Addrs  [][]byte          `json:"addrs,omitempty"` // cb: raw IP byte slices (any length, nil)
	Addr   string            `json:"addr,omitempty"`  // avahi: address string
	Port   int               `json:"port"`
	Remove bool              `json:"remove"`
}

type C08cScript struct {
	Events []C08cEvent `json:"events"`
}

func runC08c(sc C08cScript) (panicked string, entries int, herr string) {
	daemon := NewFakeAvahi()
	prov := mdns.NewAvahiProviderWithServer([]int32{avahi.InterfaceUnspec}, daemon)
	m := mdns.NewMDNS(localSKI, "b", "m", "t", "s", nil, "id", "svc", 4711, nil, mdns.MdnsProviderSelectionAll)
	if err := m.VerifStartWithProvider(prov, nil); err != nil {
		return "", 0, err.Error()
	}
	cb := m.VerifResolveCB()
	synctest.Wait()
	for i, ev := range sc.Events {
		func() {
			defer func() {
				if r := recover(); r != nil {
					panicked = fmt.Sprintf("event %d (%+v): %v", i, ev, r)
				}
			}()
			switch ev.Via {
			case "cb":
				var ips []net.IP
				for _, a := range ev.Addrs {
					ips = append(ips, net.IP(a))
				}
				txt := ev.Txt
				if ev.NilTxt {
					txt = nil
				}
				cb(txt, ev.Name, ev.Host, ips, ev.Port, ev.Remove)
			default:
				var btxt [][]byte
				for _, r := range ev.Raw {
					btxt = append(btxt, []byte(r))
				}
				go daemon.Emit(avahi.Service{Interface: 2, Name: ev.Name, Type: "_ship._tcp", Domain: "local", Host: ev.Host, Address: ev.Addr,
					Port: uint16(ev.Port), Txt: btxt}, ev.Remove)
			}
		}()
		synctest.Wait()
		if panicked != "" {
			break
		}
	}
	entries = len(m.VerifEntries())
	m.Shutdown()
	time.Sleep(5 * time.Second)
	synctest.Wait()
	return panicked, entries, ""
}

func judgeC08c(t *testing.T, sc C08cScript) (key, msg string) {
	core.Journal(sc)
	var p, herr string
	var mu sync.Mutex
	done := false
	err := core.Bubble(t, func() {
		a, _, h := runC08c(sc)
		mu.Lock()
		p, herr, done = a, h, true
		mu.Unlock()
	})
	mu.Lock()
	defer mu.Unlock()
	if core.IsInconclusive(err) {
		return "inconclusive", err.Error()
	}
	if !done {
		return "C08/mdns-wedge", "hostile mDNS input wedged the manager/provider: " + fmt.Sprint(err)
	}
	if herr != "" {
		return "harness", herr
	}
	if p != "" {
		return "C08/mdns-panic", "hostile mDNS input made the library panic: " + p
	}
	if err != nil {
		return "C08/mdns-leak", err.Error()
	}
	return "", ""
}

var txtKeys = []string{"txtvers", "id", "path", "ski", "register", "brand", "model", "type", "serial", "cat", "", "=", "x"}
var txtVals = []string{"1", "2", "", "true", "false", "yes", "/ship/", "\xff\xfe", "a=b", "1,2,3", "1,,x,-1,99999999999999999999", ",", "0000000000000000000000000000000000000001", localSKI, "é€😀"}

func genC08c(t *rapid.T) C08cScript {
	var sc C08cScript
	n := rapid.IntRange(1, 12).Draw(t, "n")
	for i := 0; i < n; i++ {
		ev := C08cEvent{Name: rapid.SampledFrom([]string{"svc", "", "a b", "\xff", "svc-1"}).Draw(t, "name"), Host: rapid.SampledFrom([]string{"h.local", "", "\x00"}).Draw(t, "host"),
			Port: rapid.SampledFrom([]int{0, -1, 1, 4711, 65535, 65536, 1 << 31}).Draw(t, "port"), Remove: rapid.IntRange(0, 3).Draw(t, "remove") == 0}
		valid := rapid.IntRange(0, 2).Draw(t, "mostlyValid") != 0
		txt := map[string]string{}
		if valid {
			txt = map[string]string{"txtvers": "1", "id": "i", "path": "/ship/", "ski": fmt.Sprintf("%040d", rapid.IntRange(1, 3).Draw(t, "ski")), "register": "true"}
		}
		for k, m := 0, rapid.IntRange(0, 4).Draw(t, "extra"); k < m; k++ {
			txt[rapid.SampledFrom(txtKeys).Draw(t, "k")] = rapid.SampledFrom(txtVals).Draw(t, "v")
		}
		if rapid.Bool().Draw(t, "viaCB") {
			ev.Via = "cb"
			ev.Txt = txt
			ev.NilTxt = rapid.IntRange(0, 9).Draw(t, "nilTxt") == 0
			for k, m := 0, rapid.IntRange(0, 3).Draw(t, "nAddr"); k < m; k++ {
				ev.Addrs = append(ev.Addrs, rapid.SampledFrom([][]byte{nil, {}, {1}, {192, 168, 1, 5}, {1, 2, 3, 4, 5}, net.ParseIP("fe80::1"), net.ParseIP("2001:db8::1"), make([]byte, 17)}).Draw(t, "addr"))
			}
		} else {
			ev.Via = "avahi"
			for k, v := range txt {
				ev.Raw = append(ev.Raw, k+"="+v)
			}
			ev.Raw = append(ev.Raw, rapid.SliceOfN(rapid.SampledFrom([]string{"", "=", "==", "novalue", "a=b=c", "\xff=\xfe", "txtvers=1"}), 0, 3).Draw(t, "rawExtra")...)
			ev.Addr = rapid.SampledFrom([]string{"192.168.1.7", "", "0.0.0.0", "::", "fe80::1", "not-an-ip", "2001:db8::5", "999.1.1.1"}).Draw(t, "addrStr")
		}
		sc.Events = append(sc.Events, ev)
	}
	return sc
}

// TestC08Mdns — hostile TXT records, names, addresses and ports never crash or wedge the mDNS code.
func TestC08Mdns(t *testing.T) {
	st := core.Begin(t, "C08", "mdnssim")
	defer st.End()
	rapid.Check(t, func(rt *rapid.T) {
		sc := genC08c(rt)
		key, msg := judgeC08c(t, sc)
		if key == "inconclusive" {
			st.AddInconclusive()
			return
		}
		st.Case(sc, true, "mdns-input")
		if key != "" {
			st.Fail(key, msg, sc)
			rt.Fatalf("%s: %s", key, msg)
		}
	})
}

func replayC08c(t *testing.T, raw json.RawMessage) (string, string) {
	var sc C08cScript
	if err := json.Unmarshal(raw, &sc); err != nil {
		return "harness", err.Error()
	}
	return judgeC08c(t, sc)
}
