package jsonrt

import (
	"testing"
)

// uniqueKeys reports whether no object of the document has a duplicate member name.
func uniqueKeys(n *Node) bool {
	switch n.K {
	case KObj:
		seen := map[string]bool{}
		for i, k := range n.Keys {
			if seen[k] {
				return false
			}
			seen[k] = true
			if !uniqueKeys(n.Vals[i]) {
				return false
			}
		}
	case KArr:
		for _, v := range n.Vals {
			if !uniqueKeys(v) {
				return false
			}
		}
	}
	return true
}

// FuzzEEBUS — coverage-guided search over byte strings; inputs that are valid
// JSON objects with unique member names go through the C07 oracles (the known
// "[]" ambiguity is modelled, every other deviation is a failure).
func FuzzEEBUS(f *testing.F) {
	for _, s := range []string{
		`{"datagram":{"header":{"specificationVersion":"1.2.0","addressSource":{"device":"d:_i:3210_HEMS","entity":[0],"feature":0}},"payload":{"cmd":[{"nodeManagementDetailedDiscoveryData":{}}]}}}`,
		`{"connectionHello":{"phase":"ready","waiting":60000}}`,
		`{"messageProtocolHandshake":{"handshakeType":"announceMax","version":{"major":1,"minor":0},"formats":{"format":["JSON-UTF8"]}}}`,
		`{"accessMethods":{"id":"Demo-EVSE-234567890"}}`, `{"data":{"header":{"protocolId":"ee1.0"},"payload":{"place":"holder"}}}`,
		`{"a":"[{","b":"},{","c":"}]","d":"[]","e":[],"f":{},"g":[[]],"h":[{}],"i":[{"x":1},{"y":[2,{"z":null}]}]}`,
		`{"n":[0,-0,1.0,1e2,18446744073709551616,0.123456789012345678901234567890,1E400]}`, `{}`, `{"\"":"\\","\u0000":"\ud83d\ude00"}`,
	} {
		f.Add([]byte(s))
	}
	f.Fuzz(func(t *testing.T, data []byte) {
		doc, err := Parse(data)
		if err != nil || doc.K != KObj || !uniqueKeys(doc) {
			t.Skip()
		}
		feat := Analyse(doc)
		if key, msg := Judge(data, feat.EmptyArr > 0); key != "" {
			t.Fatalf("%s: %s", key, msg)
		}
	})
}
