// Package jsonrt is engine E1: generators, an order- and literal-preserving
// JSON tree, the independent reference transform and the oracles for the
// EEBUS-JSON property (C07). The tree/generators are reused by other engines.
package jsonrt

import (
	"bytes"
	"encoding/json"
	"fmt"
	"io"
	"strings"
	"unicode/utf8"

	"pgregory.net/rapid"
)

type Kind int

const (
	KNull Kind = iota
	KBool
	KNum
	KStr
	KArr
	KObj
)

// Node is a JSON value; objects keep member order, numbers keep their literal.
type Node struct {
	K    Kind
	B    bool
	S    string // decoded string or number literal
	Keys []string
	Vals []*Node // members (KObj) or elements (KArr)
}

// Parse reads exactly one JSON value, keeping member order and number literals.
func Parse(b []byte) (*Node, error) {
	dec := json.NewDecoder(bytes.NewReader(b))
	dec.UseNumber()
	n, err := parseValue(dec)
	if err != nil {
		return nil, err
	}
	if _, err := dec.Token(); err != io.EOF {
		return nil, fmt.Errorf("trailing data after JSON value")
	}
	return n, nil
}

func parseValue(dec *json.Decoder) (*Node, error) {
	t, err := dec.Token()
	if err != nil {
		return nil, err
	}
	switch v := t.(type) {
	case json.Delim:
		switch v {
		case '{':
			n := &Node{K: KObj}
			for dec.More() {
				kt, err := dec.Token()
				if err != nil {
					return nil, err
				}
				k, ok := kt.(string)
				if !ok {
					return nil, fmt.Errorf("non-string key")
				}
				val, err := parseValue(dec)
				if err != nil {
					return nil, err
				}
				n.Keys = append(n.Keys, k)
				n.Vals = append(n.Vals, val)
			}
			if _, err := dec.Token(); err != nil {
				return nil, err
			}
			return n, nil
		case '[':
			n := &Node{K: KArr}
			for dec.More() {
				val, err := parseValue(dec)
				if err != nil {
					return nil, err
				}
				n.Vals = append(n.Vals, val)
			}
			if _, err := dec.Token(); err != nil {
				return nil, err
			}
			return n, nil
		}
		return nil, fmt.Errorf("unexpected delimiter %v", v)
	case string:
		return &Node{K: KStr, S: v}, nil
	case json.Number:
		return &Node{K: KNum, S: string(v)}, nil
	case bool:
		return &Node{K: KBool, B: v}, nil
	case nil:
		return &Node{K: KNull}, nil
	}
	return nil, fmt.Errorf("unexpected token %T", t)
}

// Equal is structural equality: same kinds, same member order, same decoded
// strings, same number literals.
func Equal(a, b *Node) bool {
	if a.K != b.K {
		return false
	}
	switch a.K {
	case KBool:
		return a.B == b.B
	case KNum, KStr:
		return a.S == b.S
	case KArr, KObj:
		if len(a.Vals) != len(b.Vals) {
			return false
		}
		for i := range a.Vals {
			if a.K == KObj && a.Keys[i] != b.Keys[i] {
				return false
			}
			if !Equal(a.Vals[i], b.Vals[i]) {
				return false
			}
		}
	}
	return true
}

// Transform is the reference JSON -> EEBUS transform written from SHIP 1.0.1
// (every object becomes an array of single-member objects, at every level;
// arrays are mapped element-wise; scalars are unchanged).
func Transform(n *Node) *Node {
	switch n.K {
	case KObj:
		out := &Node{K: KArr}
		for i, k := range n.Keys {
			out.Vals = append(out.Vals, &Node{K: KObj, Keys: []string{k}, Vals: []*Node{Transform(n.Vals[i])}})
		}
		return out
	case KArr:
		out := &Node{K: KArr}
		for _, v := range n.Vals {
			out.Vals = append(out.Vals, Transform(v))
		}
		return out
	}
	return n
}

// EmptyArraysToObjects models the one known, inherent ambiguity of the wire
// form: "[]" stands for both the empty object and the empty array.
func EmptyArraysToObjects(n *Node) *Node {
	switch n.K {
	case KArr:
		if len(n.Vals) == 0 {
			return &Node{K: KObj}
		}
		out := &Node{K: KArr}
		for _, v := range n.Vals {
			out.Vals = append(out.Vals, EmptyArraysToObjects(v))
		}
		return out
	case KObj:
		out := &Node{K: KObj, Keys: n.Keys}
		for _, v := range n.Vals {
			out.Vals = append(out.Vals, EmptyArraysToObjects(v))
		}
		return out
	}
	return n
}

// Features of a document, for the non-triviality rule and class histogram.
type Features struct {
	Depth         int
	EmptyArr      int
	EmptyObj      int
	StructInStr   bool // a string or key contains [ ] { } , : " or \
	PatternInStr  bool // a string or key contains one of the four rewrite patterns
	BigNum        bool
	ArrOfObj      bool
	ArrOfArr      bool
	Strings, Nums int
}

var patterns = []string{"[{", "},{", "}]", "[]"}

func (f *Features) str(s string) {
	f.Strings++
	if strings.ContainsAny(s, "[]{},:\"\\") {
		f.StructInStr = true
	}
	for _, p := range patterns {
		if strings.Contains(s, p) {
			f.PatternInStr = true
		}
	}
}

func Analyse(n *Node) Features {
	var f Features
	var walk func(n *Node, d int)
	walk = func(n *Node, d int) {
		if d > f.Depth {
			f.Depth = d
		}
		switch n.K {
		case KStr:
			f.str(n.S)
		case KNum:
			f.Nums++
			if len(n.S) > 15 || strings.ContainsAny(n.S, "eE") {
				f.BigNum = true
			}
		case KArr:
			if len(n.Vals) == 0 {
				f.EmptyArr++
			}
			for _, v := range n.Vals {
				if v.K == KObj {
					f.ArrOfObj = true
				}
				if v.K == KArr {
					f.ArrOfArr = true
				}
				walk(v, d+1)
			}
		case KObj:
			if len(n.Vals) == 0 {
				f.EmptyObj++
			}
			for i, v := range n.Vals {
				f.str(n.Keys[i])
				f.Strings--
				walk(v, d+1)
			}
		}
	}
	walk(n, 0)
	return f
}

// Encode writes the document as JSON text. style bit 0: escape '/' and
// non-ASCII runes as \u escapes; bit 1: blanks after ':' and ','.
func Encode(n *Node, style int) []byte {
	var b bytes.Buffer
	encode(&b, n, style)
	return b.Bytes()
}

func encode(b *bytes.Buffer, n *Node, style int) {
	sp := ""
	if style&2 != 0 {
		sp = " "
	}
	switch n.K {
	case KNull:
		b.WriteString("null")
	case KBool:
		if n.B {
			b.WriteString("true")
		} else {
			b.WriteString("false")
		}
	case KNum:
		b.WriteString(n.S)
	case KStr:
		encodeString(b, n.S, style)
	case KArr:
		b.WriteByte('[')
		for i, v := range n.Vals {
			if i > 0 {
				b.WriteString("," + sp)
			}
			encode(b, v, style)
		}
		b.WriteByte(']')
	case KObj:
		b.WriteByte('{')
		for i, v := range n.Vals {
			if i > 0 {
				b.WriteString("," + sp)
			}
			encodeString(b, n.Keys[i], style)
			b.WriteString(":" + sp)
			encode(b, v, style)
		}
		b.WriteByte('}')
	}
}

func encodeString(b *bytes.Buffer, s string, style int) {
	b.WriteByte('"')
	for _, r := range s {
		switch {
		case r == '"':
			b.WriteString(`\"`)
		case r == '\\':
			b.WriteString(`\\`)
		case r == '\n' && style&1 == 0:
			b.WriteString(`\n`)
		case r < 0x20:
			fmt.Fprintf(b, `\u%04x`, r)
		case r == '/' && style&1 != 0:
			b.WriteString(`\/`)
		case r > 0x7e && style&1 != 0:
			if r >= 0x10000 {
				r -= 0x10000
				fmt.Fprintf(b, `\u%04x\u%04x`, 0xd800+(r>>10), 0xdc00+(r&0x3ff))
			} else {
				fmt.Fprintf(b, `\u%04x`, r)
			}
		default:
			b.WriteRune(r)
		}
	}
	b.WriteByte('"')
}

// ---- generators -------------------------------------------------------------

var pieces = []string{
	"[{", "},{", "}]", "[]", "[", "]", "{", "}", ",", ":", "\"", "\\", "/", " ", "\n", "\t", "\x01", "\x7f",
	"é", "€", "😀", " ", "<", ">", "&", "a", "b", "Z", "0", "datagram", "accessMethods", "null", "{}", "[ ]",
	"\":{", "\",\"", "}}", "]]", "[[", "{\"place\":\"holder\"}", "'",
}

// HostileString draws strings weighted towards JSON-structural characters and
// the four textual rewrite patterns. noPatterns excludes every string that
// contains one of them (used while a finding about them is open).
func HostileString(t *rapid.T, label string, noPatterns bool) string {
	var s string
	switch rapid.IntRange(0, 9).Draw(t, label+"Kind") {
	case 0:
		s = rapid.String().Draw(t, label)
	case 1, 2:
		s = rapid.StringMatching(`[a-zA-Z0-9 _.-]{0,12}`).Draw(t, label)
	default:
		s = strings.Join(rapid.SliceOfN(rapid.SampledFrom(pieces), 0, 6).Draw(t, label), "")
	}
	if !utf8.ValidString(s) {
		s = strings.ToValidUTF8(s, "?")
	}
	if noPatterns {
		for changed := true; changed; {
			changed = false
			for _, p := range patterns {
				if strings.Contains(s, p) {
					s = strings.ReplaceAll(s, p, p[:1]+"_"+p[1:])
					changed = true
				}
			}
		}
	}
	return s
}

var numLits = []string{
	"0", "-0", "1", "-1", "1.0", "1e2", "1E+2", "2.50", "18446744073709551616", "123456789012345678901234567890",
	"0.123456789012345678901234567890", "-1.5e-300", "9007199254740993", "1e400", "3.14", "60000", "0.0",
}

func genNumber(t *rapid.T) string {
	if rapid.IntRange(0, 3).Draw(t, "numKind") == 0 {
		return fmt.Sprintf("%d", rapid.Int64().Draw(t, "int"))
	}
	return rapid.SampledFrom(numLits).Draw(t, "num")
}

// GenOpts restricts the document generator.
type GenOpts struct {
	NoPatterns    bool // no string/key contains one of the four rewrite patterns
	NoEmptyArrays bool
	MaxDepth      int
	MaxWidth      int
}

func genValue(t *rapid.T, depth int, o GenOpts) *Node {
	max := 9
	if depth >= o.MaxDepth {
		max = 5
	}
	switch rapid.IntRange(0, max).Draw(t, "kind") {
	case 0:
		return &Node{K: KNull}
	case 1:
		return &Node{K: KBool, B: rapid.Bool().Draw(t, "b")}
	case 2, 3:
		return &Node{K: KNum, S: genNumber(t)}
	case 4, 5:
		return &Node{K: KStr, S: HostileString(t, "s", o.NoPatterns)}
	case 6, 7:
		return GenObject(t, depth+1, 0, o)
	default:
		min := 0
		if o.NoEmptyArrays {
			min = 1
		}
		n := rapid.IntRange(min, o.MaxWidth).Draw(t, "alen")
		arr := &Node{K: KArr}
		for i := 0; i < n; i++ {
			arr.Vals = append(arr.Vals, genValue(t, depth+1, o))
		}
		return arr
	}
}

// GenObject draws an object with unique keys (duplicate keys have no defined
// JSON semantics) and at least minMembers members.
func GenObject(t *rapid.T, depth, minMembers int, o GenOpts) *Node {
	n := rapid.IntRange(minMembers, o.MaxWidth).Draw(t, "olen")
	obj := &Node{K: KObj}
	seen := map[string]bool{}
	for i := 0; i < n; i++ {
		k := HostileString(t, "k", o.NoPatterns)
		for seen[k] {
			k += "x"
		}
		seen[k] = true
		obj.Keys = append(obj.Keys, k)
		obj.Vals = append(obj.Vals, genValue(t, depth, o))
	}
	return obj
}
