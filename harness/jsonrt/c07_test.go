package jsonrt

import (
	"encoding/json"
	"testing"

	"pgregory.net/rapid"

	"verifharness/core"
)

func opts() GenOpts {
	return GenOpts{NoPatterns: core.Excluded(KeyStringPattern), MaxDepth: 5, MaxWidth: 5}
}

// TestC07 — EEBUS-JSON shape and round trip over generated documents.
func TestC07(t *testing.T) {
	st := core.Begin(t, "C07", "jsonrt")
	defer st.End()
	relax := core.Excluded(KeyEmptyArray)
	o := opts()
	rapid.Check(t, func(rt *rapid.T) {
		minMembers := 0
		if core.Excluded(KeyEmptyTop) {
			minMembers = 1
		}
		doc := GenObject(rt, 0, minMembers, o)
		style := rapid.IntRange(0, 3).Draw(rt, "style")
		text := Encode(doc, style)
		f := Analyse(doc)
		sc := Script{Doc: string(text)}
		key, msg := Judge(text, relax && f.EmptyArr > 0)
		nt := f.Depth >= 2 && (f.StructInStr || f.EmptyArr+f.EmptyObj > 0 || f.BigNum || f.ArrOfObj)
		cls := []string{"depth>=2:" + b2s(f.Depth >= 2), "structural-char-in-string:" + b2s(f.StructInStr),
			"pattern-in-string:" + b2s(f.PatternInStr), "empty-array:" + b2s(f.EmptyArr > 0), "empty-object:" + b2s(f.EmptyObj > 0),
			"big-number:" + b2s(f.BigNum), "array-of-objects:" + b2s(f.ArrOfObj), "array-of-arrays:" + b2s(f.ArrOfArr)}
		st.Case(sc, nt, cls...)
		if relax && f.EmptyArr > 0 {
			st.AddExcluded(KeyEmptyArray, 1)
		}
		if key != "" {
			st.Fail(key, msg, sc)
			rt.Fatalf("%s: %s", key, msg)
		}
	})
}

func b2s(b bool) string {
	if b {
		return "yes"
	}
	return "no"
}

// TestReplay executes a replay file with the strict oracle, bypassing rapid.
func TestReplay(t *testing.T) {
	if *core.ReplayFlag == "" {
		t.Skip("no -script")
	}
	f, err := core.LoadReplay(*core.ReplayFlag)
	if err != nil {
		t.Fatal(err)
	}
	var sc Script
	if err := json.Unmarshal(f.Script, &sc); err != nil {
		t.Fatal(err)
	}
	key, msg := Judge([]byte(sc.Doc), false)
	core.ReplayVerdict(t, "C07", key, msg)
}
