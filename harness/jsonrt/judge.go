package jsonrt

import (
	"fmt"

	"github.com/enbility/ship-go/ship"
)

// Script is the replayable case of C07: one JSON document (text).
type Script struct {
	Doc string `json:"doc"`
}

// Finding keys of C07 (see KNOWN_FINDINGS.txt).
const (
	KeyEmptyArray    = "C07/empty-array"
	KeyStringPattern = "C07/string-pattern"
	KeyEmptyTop      = "C07/empty-top-object"
)

// Judge applies the C07 oracles to one document. relaxEmptyArrays models the
// known "[]" ambiguity (the result is compared with the document in which
// every empty array is replaced by an empty object). Returns key=="" if the
// property holds for the document.
func Judge(docText []byte, relaxEmptyArrays bool) (key, msg string) {
	doc, err := Parse(docText)
	if err != nil || doc.K != KObj {
		return "harness/invalid-input", fmt.Sprintf("generator produced an invalid document: %v", err)
	}
	wire, err := ship.JsonIntoEEBUSJson(docText)
	if err != nil {
		return "C07/into-error", fmt.Sprintf("JsonIntoEEBUSJson rejected a valid document: %v", err)
	}
	// (1) shape: re-bracketed wire form equals the reference transform
	// (SHIP messages drop the outermost array brackets; an object without
	// members has nothing to drop and is the empty array itself)
	rebracketed := "[" + wire + "]"
	if len(doc.Vals) == 0 {
		rebracketed = wire
	}
	got, err := Parse([]byte(rebracketed))
	if err != nil {
		return "C07/shape-unparseable", fmt.Sprintf("wire form is not JSON after re-bracketing: %v; wire=%q", err, wire)
	}
	if want := Transform(doc); !Equal(got, want) {
		return "C07/shape", fmt.Sprintf("wire form differs from the SHIP shape: wire=%q want=%q", wire, Encode(want, 0))
	}
	// (2) round trip
	back := ship.JsonFromEEBUSJson([]byte(wire))
	f := Analyse(doc)
	diag := func() string {
		switch {
		case len(doc.Vals) == 0:
			return KeyEmptyTop
		case f.PatternInStr:
			return KeyStringPattern
		case f.EmptyArr > 0:
			return KeyEmptyArray
		}
		return "C07/roundtrip"
	}
	// (2b) a result is a value: converting another message afterwards (as the next message on this
	// or any other connection does) must not change what an earlier conversion returned
	backBefore := append([]byte(nil), back...)
	wireBefore := string(append([]byte(nil), wire...))
	for _, canary := range canaries(len(docText)) {
		w2, err := ship.JsonIntoEEBUSJson(canary)
		if err == nil {
			_ = ship.JsonFromEEBUSJson([]byte(w2))
		}
	}
	if string(back) != string(backBefore) || wire != wireBefore {
		return "C07/result-changed-by-later-conversion", fmt.Sprintf("the result of a conversion changed when other documents were converted afterwards: doc=%q back was %q, is now %q", docText, backBefore, back)
	}
	rt, err := Parse(back)
	if err != nil {
		return diag(), fmt.Sprintf("round trip result is not JSON: %v; wire=%q back=%q", err, wire, back)
	}
	want := doc
	if relaxEmptyArrays {
		want = EmptyArraysToObjects(doc)
	}
	if !Equal(rt, want) {
		// a document whose only deviation is the [] ambiguity gets that key
		if !relaxEmptyArrays && f.EmptyArr > 0 && Equal(rt, EmptyArraysToObjects(doc)) {
			return KeyEmptyArray, fmt.Sprintf("empty array came back as empty object: doc=%q back=%q", docText, back)
		}
		return diag(), fmt.Sprintf("round trip changed the document: doc=%q wire=%q back=%q", docText, wire, back)
	}
	return "", ""
}

// canaries: other documents of about the same and of other sizes than the document under test.
func canaries(n int) [][]byte {
	pad := func(k int) string {
		b := make([]byte, k)
		for i := range b {
			b[i] = "canary-"[i%7]
		}
		return string(b)
	}
	return [][]byte{
		[]byte(`{"c":[{"a":1},{"b":"` + pad(n) + `"}]}`),
		[]byte(`{"c":{"d":{"e":"` + pad(n/2+1) + `"}},"f":[1,2,3]}`),
		[]byte(`{"z":"` + pad(3*n+64) + `"}`),
	}
}
