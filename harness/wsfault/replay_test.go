package wsfault

import (
	"testing"

	"verifharness/core"
)

// TestReplay executes a replay file with the monitor of its property, bypassing rapid.
func TestReplay(t *testing.T) {
	if *core.ReplayFlag == "" {
		t.Skip("no -script")
	}
	f, err := core.LoadReplay(*core.ReplayFlag)
	if err != nil {
		t.Fatal(err)
	}
	var key, msg string
	switch f.Test {
	case "TestC12":
		key, msg = replayC12(t, f.Script)
	case "TestC13":
		key, msg = replayC13(t, f.Script)
	case "TestC08WS":
		key, msg = replayC08b(t, f.Script)
	case "TestC06Stack":
		key, msg = replayC06Stack(t, f.Script)
	default:
		t.Fatalf("no replay handler for %s", f.Test)
	}
	core.ReplayVerdict(t, f.Property, key, msg)
}
