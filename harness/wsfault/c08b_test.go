package wsfault

import (
	"bytes"
	"encoding/json"
	"fmt"
	"sync"
	"testing"
	"testing/synctest"
	"time"

	"github.com/gorilla/websocket"
	"pgregory.net/rapid"

	"github.com/enbility/ship-go/ws"
	"verifharness/core"
)

// Frame is one thing the hostile peer puts on the wire.
type Frame struct {
	Kind string `json:"kind"` // binary | text | ping | pong | close | raw | fragments
	Len  int    `json:"len"`
	Code int    `json:"code,omitempty"`
	Seed int    `json:"seed"`
}

type C08bScript struct {
	Frames []Frame `json:"frames"`
}

func frameData(f Frame) []byte {
	b := make([]byte, f.Len)
	for i := range b {
		b[i] = byte(f.Seed*131 + i*7)
	}
	return b
}

type c08bResult struct {
	Delivered [][]byte
	Errors    int
	Closed    bool
	Herr      string
}

func runC08b(sc C08bScript) *c08bResult {
	res := &c08bResult{}
	ca, cb, a, b, err := WSPair(1 << 20)
	if err != nil {
		res.Herr = err.Error()
		return res
	}
	rec := NewRecorder(a)
	sut := ws.NewWebsocketConnection(ca, "peer-ski")
	sut.InitDataProcessing(rec)
	go func() { // drain what the connection under test sends (pongs, close frames)
		buf := make([]byte, 4096)
		for {
			if _, err := b.Read(buf); err != nil {
				return
			}
		}
	}()
	for _, f := range sc.Frames {
		d := frameData(f)
		_ = cb.SetWriteDeadline(time.Now().Add(time.Second))
		switch f.Kind {
		case "binary":
			_ = cb.WriteMessage(websocket.BinaryMessage, d)
		case "text":
			_ = cb.WriteMessage(websocket.TextMessage, bytes.ToValidUTF8(d, []byte("?")))
		case "ping":
			if len(d) > 125 {
				d = d[:125]
			}
			_ = cb.WriteControl(websocket.PingMessage, d, time.Now().Add(time.Second))
		case "pong":
			if len(d) > 125 {
				d = d[:125]
			}
			_ = cb.WriteControl(websocket.PongMessage, d, time.Now().Add(time.Second))
		case "close":
			r := string(bytes.ToValidUTF8(d, []byte("?")))
			if len(r) > 100 {
				r = r[:100]
			}
			_ = cb.WriteControl(websocket.CloseMessage, websocket.FormatCloseMessage(f.Code, r), time.Now().Add(time.Second))
		case "raw": // bytes that are no websocket frame at all
			_, _ = b.Write(d)
		case "fragments": // one binary message in several fragments
			w, err := cb.NextWriter(websocket.BinaryMessage)
			if err == nil {
				for i := 0; i < len(d); i += 3 {
					_, _ = w.Write(d[i:min(i+3, len(d))])
				}
				_ = w.Close()
			}
		}
		synctest.Wait()
	}
	time.Sleep(3 * time.Minute) // beyond ping period and pong wait
	synctest.Wait()
	msgs, errs := rec.Snapshot()
	res.Delivered, res.Errors = msgs, len(errs)
	res.Closed, _ = sut.IsDataConnectionClosed()
	sut.CloseDataConnection(4001, "")
	_ = b.Close()
	_ = a.Close()
	time.Sleep(2 * time.Minute)
	synctest.Wait()
	return res
}

func judgeC08b(t *testing.T, sc C08bScript) (key, msg string) {
	core.Journal(sc)
	var res *c08bResult
	var mu sync.Mutex
	err := core.Bubble(t, func() {
		x := runC08b(sc)
		mu.Lock()
		res = x
		mu.Unlock()
	})
	mu.Lock()
	defer mu.Unlock()
	if core.IsInconclusive(err) {
		return "inconclusive", err.Error()
	}
	if res == nil {
		return "C08/ws-wedge", "hostile websocket frames wedged the connection: " + fmt.Sprint(err)
	}
	if res.Herr != "" {
		return "harness", res.Herr
	}
	// expected deliveries: the valid binary messages (>= 2 bytes) sent before the first input that must end the connection
	var want [][]byte
	ended, garbage := false, false
	for _, f := range sc.Frames {
		if ended {
			break
		}
		d := frameData(f)
		switch f.Kind {
		case "binary", "fragments":
			if len(d) >= 2 {
				want = append(want, d)
			} else {
				ended = true
			}
		case "text", "close":
			ended = true
		case "raw":
			if len(d) > 0 {
				// garbage in the byte stream. Together with the bytes that follow it may happen to be a
				// valid frame (a binary message made of the next frame's header, a ping, ...): from here
				// on only the safety clauses apply (no short message, no panic, no wedge, no leak)
				ended, garbage = true, true
			}
		}
	}
	for i, m := range res.Delivered {
		if len(m) < 2 {
			return "C08/ws-short-message-delivered", fmt.Sprintf("a message of %d bytes was handed to the SHIP layer", len(m))
		}
		if i >= len(want) && garbage {
			continue
		}
		if i >= len(want) || !bytes.Equal(m, want[i]) {
			return "C08/ws-invalid-delivery", fmt.Sprintf("delivery #%d (% x...) is not the %d-th valid binary message the peer sent before the first invalid input (%d valid)", i, m[:min(8, len(m))], i, len(want))
		}
	}
	if len(res.Delivered) < len(want) {
		return "C08/ws-valid-message-lost", fmt.Sprintf("%d valid binary messages were sent before the first invalid input, %d were delivered", len(want), len(res.Delivered))
	}
	if ended && !garbage && !res.Closed {
		return "C08/ws-not-closed-after-invalid-input", "invalid input (text frame, short message, close frame or garbage) did not end the connection"
	}
	if ended && !garbage && res.Errors == 0 {
		return "C08/ws-no-error-report", "invalid input ended the connection but no connection error was reported"
	}
	if err != nil {
		return "C08/ws-leak", "goroutine left blocked: " + err.Error()
	}
	return "", ""
}

func genC08b(t *rapid.T) C08bScript {
	var sc C08bScript
	n := rapid.IntRange(1, 12).Draw(t, "n")
	for i := 0; i < n; i++ {
		f := Frame{Kind: rapid.SampledFrom([]string{"binary", "binary", "binary", "binary", "fragments", "text", "ping", "pong", "close", "raw"}).Draw(t, "kind"),
			Len:  rapid.SampledFrom([]int{0, 1, 2, 3, 17, 125, 126, 1024, 1025, 70000}).Draw(t, "len"),
			Code: rapid.SampledFrom([]int{1000, 1001, 1005, 1006, 2999, 4001, 4452, 4500, 4999}).Draw(t, "code"), Seed: rapid.IntRange(0, 255).Draw(t, "seed")}
		sc.Frames = append(sc.Frames, f)
	}
	return sc
}

// TestC08WS — arbitrary websocket frames and raw bytes into a live connection.
func TestC08WS(t *testing.T) {
	st := core.Begin(t, "C08", "wsfault")
	defer st.End()
	rapid.Check(t, func(rt *rapid.T) {
		sc := genC08b(rt)
		key, msg := judgeC08b(t, sc)
		if key == "inconclusive" {
			st.AddInconclusive()
			return
		}
		hostile := false
		var cls []string
		for _, f := range sc.Frames {
			if f.Kind != "binary" || f.Len < 2 {
				hostile = true
			}
			cls = append(cls, "ws-frame:"+f.Kind)
		}
		st.Case(sc, hostile, cls...)
		if key != "" {
			st.Fail(key, msg, sc)
			rt.Fatalf("%s: %s", key, msg)
		}
	})
}

func replayC08b(t *testing.T, raw json.RawMessage) (string, string) {
	var sc C08bScript
	if err := json.Unmarshal(raw, &sc); err != nil {
		return "harness", err.Error()
	}
	return judgeC08b(t, sc)
}
