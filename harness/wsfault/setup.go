package wsfault

import (
	"bufio"
	"fmt"
	"net"
	"net/http"
	"net/url"
	"sync"
	"time"

	"github.com/gorilla/websocket"

	"github.com/enbility/ship-go/ws"
)

// hijackRW lets gorilla's Upgrader take over an in-memory connection without an http.Server.
type hijackRW struct {
	conn net.Conn
	brw  *bufio.ReadWriter
	hdr  http.Header
}

func (h *hijackRW) Header() http.Header         { return h.hdr }
func (h *hijackRW) Write(b []byte) (int, error) { return h.brw.Write(b) }
func (h *hijackRW) WriteHeader(int)             {}
func (h *hijackRW) Hijack() (net.Conn, *bufio.ReadWriter, error) {
	return h.conn, h.brw, nil
}

// WSPair performs a real websocket opening handshake over a Pipe and returns
// the two gorilla connections (client side on a, server side on b).
func WSPair(capacity int) (ca, cb *websocket.Conn, a, b *Conn, err error) {
	a, b = Pipe(capacity)
	var wg sync.WaitGroup
	var serr error
	wg.Add(1)
	go func() {
		defer wg.Done()
		br := bufio.NewReader(b)
		req, e := http.ReadRequest(br)
		if e != nil {
			serr = e
			return
		}
		up := websocket.Upgrader{ReadBufferSize: ws.MaxMessageSize, WriteBufferSize: ws.MaxMessageSize,
			CheckOrigin: func(*http.Request) bool { return true }, Subprotocols: []string{"ship"}}
		rw := &hijackRW{conn: b, brw: bufio.NewReadWriter(br, bufio.NewWriter(b)), hdr: http.Header{}}
		cb, serr = up.Upgrade(rw, req, nil)
	}()
	u, _ := url.Parse("ws://mem/ship/")
	ca, _, err = websocket.NewClient(a, u, http.Header{"Sec-WebSocket-Protocol": {"ship"}}, ws.MaxMessageSize, ws.MaxMessageSize)
	wg.Wait()
	if err == nil {
		err = serr
	}
	if err != nil {
		return nil, nil, a, b, fmt.Errorf("websocket opening handshake over memconn failed: %w", err)
	}
	return ca, cb, a, b, nil
}

// Recorder is the SHIP layer's side of the websocket connection under test.
type Recorder struct {
	mu      sync.Mutex
	start   time.Time
	Msgs    [][]byte
	MsgAt   []time.Duration
	MsgByte []int // bytes consumed from the memconn when the message was delivered
	Errors  []error
	ErrAt   []time.Duration
	ErrByte []int
	conn    *Conn
	OnMsg   func([]byte)
	// OnError runs inside ReportConnectionError, as the SHIP layer's reaction does (it closes the
	// data connection from inside the report, and may have to wait for a writer that holds its close-once)
	OnError func(error)
}

func NewRecorder(c *Conn) *Recorder { return &Recorder{start: time.Now(), conn: c} }

func (r *Recorder) HandleIncomingWebsocketMessage(m []byte) {
	r.mu.Lock()
	r.Msgs = append(r.Msgs, append([]byte(nil), m...))
	r.MsgAt = append(r.MsgAt, time.Since(r.start))
	r.MsgByte = append(r.MsgByte, r.conn.Consumed())
	cb := r.OnMsg
	r.mu.Unlock()
	if cb != nil {
		cb(m)
	}
}

func (r *Recorder) ReportConnectionError(err error) {
	r.mu.Lock()
	r.Errors = append(r.Errors, err)
	r.ErrAt = append(r.ErrAt, time.Since(r.start))
	r.ErrByte = append(r.ErrByte, r.conn.Consumed())
	cb := r.OnError
	r.mu.Unlock()
	if cb != nil {
		cb(err)
	}
}

func (r *Recorder) Snapshot() (msgs [][]byte, errs []error) {
	r.mu.Lock()
	defer r.mu.Unlock()
	return append([][]byte(nil), r.Msgs...), append([]error(nil), r.Errors...)
}
