package wsfault

import (
	"encoding/json"
	"fmt"
	"strings"
	"sync"
	"testing"
	"testing/synctest"
	"time"

	"pgregory.net/rapid"

	"github.com/enbility/ship-go/api"
	"github.com/enbility/ship-go/model"
	"github.com/enbility/ship-go/ship"
	"github.com/enbility/ship-go/ws"
	"verifharness/core"
)

// C06StackScript: full stack (SHIP over the real websocket layer over the in-memory
// pipe): after completion each side's application sends numbered datagrams from one
// goroutine while the receiving application may be slow (back pressure).
type C06StackScript struct {
	Send   [2]int `json:"send"`   // datagrams sent by client / server application
	SlowMs [2]int `json:"slowMs"` // virtual ms the receiving application of side i needs per datagram
	Cap    int    `json:"cap"`    // pipe buffer per direction
	Pad    int    `json:"pad"`    // payload padding bytes
	// the receiving application of side i stops for StallMs[i] virtual ms when it gets its StallAt[i]-th
	// datagram (1-based; 0 = never): seconds of back pressure, still below the 10 s write deadline
	StallAt [2]int `json:"stallAt,omitempty"`
	StallMs [2]int `json:"stallMs,omitempty"`
}

type stackProv struct {
	mu      sync.Mutex
	side    int
	writer  api.ShipConnectionDataWriterInterface
	got     []string
	states  []model.ShipMessageExchangeState
	closed  int
	slow    time.Duration
	stallAt int
	stall   time.Duration
}

func (p *stackProv) IsRemoteServiceForSKIPaired(string) bool { return true }
func (p *stackProv) IsAutoAcceptEnabled() bool               { return false }
func (p *stackProv) AllowWaitingForTrust(string) bool        { return true }
func (p *stackProv) HandleConnectionClosed(api.ShipConnectionInterface, bool) {
	p.mu.Lock()
	p.closed++
	p.mu.Unlock()
}
func (p *stackProv) ReportServiceShipID(string, string) {}
func (p *stackProv) HandleShipHandshakeStateUpdate(_ string, st model.ShipState) {
	p.mu.Lock()
	p.states = append(p.states, st.State)
	p.mu.Unlock()
}
func (p *stackProv) SetupRemoteDevice(_ string, w api.ShipConnectionDataWriterInterface) api.ShipConnectionDataReaderInterface {
	p.mu.Lock()
	p.writer = w
	p.mu.Unlock()
	return p
}
func (p *stackProv) HandleShipPayloadMessage(m []byte) {
	p.mu.Lock()
	p.got = append(p.got, string(m))
	n := len(p.got)
	p.mu.Unlock()
	if p.slow > 0 {
		time.Sleep(p.slow)
	}
	if p.stallAt > 0 && n == p.stallAt {
		time.Sleep(p.stall)
	}
}

type c06StackResult struct {
	Got       [2][]string
	Completed bool
	Closed    [2]int
	Herr      string
}

func runC06Stack(sc C06StackScript) *c06StackResult {
	res := &c06StackResult{}
	ca, cb, a, b, err := WSPair(sc.Cap)
	if err != nil {
		res.Herr = err.Error()
		return res
	}
	prov := [2]*stackProv{{side: 0, slow: time.Duration(sc.SlowMs[0]) * time.Millisecond}, {side: 1, slow: time.Duration(sc.SlowMs[1]) * time.Millisecond}}
	for s := 0; s < 2; s++ {
		prov[s].stallAt, prov[s].stall = sc.StallAt[s], time.Duration(sc.StallMs[s])*time.Millisecond
	}
	wsA := ws.NewWebsocketConnection(ca, "ski-of-server")
	wsB := ws.NewWebsocketConnection(cb, "ski-of-client")
	shipB := ship.NewConnectionHandler(prov[1], wsB, ship.ShipRoleServer, "server-id", "ski-of-client", "")
	shipA := ship.NewConnectionHandler(prov[0], wsA, ship.ShipRoleClient, "client-id", "ski-of-server", "")
	shipB.Run()
	shipA.Run()
	synctest.Wait()
	sa, _ := shipA.ShipHandshakeState()
	sb, _ := shipB.ShipHandshakeState()
	res.Completed = sa == model.SmeStateComplete && sb == model.SmeStateComplete
	if res.Completed {
		var wg sync.WaitGroup
		for s := 0; s < 2; s++ {
			prov[s].mu.Lock()
			w := prov[s].writer
			prov[s].mu.Unlock()
			wg.Add(1)
			go func(s int, w api.ShipConnectionDataWriterInterface) {
				defer wg.Done()
				for i := 0; i < sc.Send[s]; i++ {
					w.WriteShipMessageWithPayload([]byte(fmt.Sprintf(`{"datagram":{"from":%d,"n":%d,"pad":"%s"}}`, s, i, strings.Repeat("x", sc.Pad))))
				}
			}(s, w)
		}
		wg.Wait()
		time.Sleep(30 * time.Second) // slow receivers catch up (well below the ping period)
		synctest.Wait()
	}
	for s := 0; s < 2; s++ {
		prov[s].mu.Lock()
		res.Got[s] = append([]string(nil), prov[s].got...)
		prov[s].mu.Unlock()
	}
	shipA.CloseConnection(false, 0, "")
	shipB.CloseConnection(false, 0, "")
	_ = a.Close()
	_ = b.Close()
	time.Sleep(3 * time.Minute)
	synctest.Wait()
	for s := 0; s < 2; s++ {
		prov[s].mu.Lock()
		res.Closed[s] = prov[s].closed
		prov[s].mu.Unlock()
	}
	return res
}

func judgeC06Stack(t *testing.T, sc C06StackScript) (key, msg string) {
	core.Journal(sc)
	var res *c06StackResult
	var mu sync.Mutex
	err := core.Bubble(t, func() {
		x := runC06Stack(sc)
		mu.Lock()
		res = x
		mu.Unlock()
	})
	mu.Lock()
	defer mu.Unlock()
	if core.IsInconclusive(err) {
		return "inconclusive", err.Error()
	}
	if res == nil {
		return "C06/stack-hang", "SHIP over the real websocket layer did not finish: " + fmt.Sprint(err)
	}
	if res.Herr != "" {
		return "harness", res.Herr
	}
	if !res.Completed {
		// precondition of this run, not its subject (C03 decides handshakes). Over the real pumps the server's
		// init reply can overtake the client's own transition into its wait state (the reply is then dropped and
		// the handshake times out); such a case says nothing about datagram delivery.
		return "precondition", "handshake did not complete"
	}
	for s := 0; s < 2; s++ {
		got := res.Got[1-s] // what the peer of sender s received
		for i, g := range got {
			want := fmt.Sprintf(`"from":%d,"n":%d,`, s, i)
			if !strings.Contains(g, want) {
				return "C06/stack-order-or-loss", fmt.Sprintf("receiver of side %d: delivery #%d is %.80q, expected datagram n=%d (sent %d, received %d)", s, i, g, i, sc.Send[s], len(got))
			}
		}
		if len(got) != sc.Send[s] {
			return "C06/stack-loss", fmt.Sprintf("side %d sent %d datagrams through its data writer on an open, completed connection, the peer's reader received %d", s, sc.Send[s], len(got))
		}
	}
	for s := 0; s < 2; s++ {
		if res.Closed[s] != 1 {
			return "C06/stack-close-report", fmt.Sprintf("side %d reported HandleConnectionClosed %d times over the real websocket layer", s, res.Closed[s])
		}
	}
	if err != nil {
		return "C06/stack-leak", err.Error()
	}
	return "", ""
}

// TestC06Stack — exactly-once, ordered delivery through SHIP over the real websocket layer, with back pressure.
func TestC06Stack(t *testing.T) {
	st := core.Begin(t, "C06", "wsfault")
	defer st.End()
	rapid.Check(t, func(rt *rapid.T) {
		sc := C06StackScript{
			Send:   [2]int{rapid.IntRange(0, 120).Draw(rt, "sendC"), rapid.IntRange(0, 120).Draw(rt, "sendS")},
			SlowMs: [2]int{rapid.SampledFrom([]int{0, 0, 1, 20, 60}).Draw(rt, "slowC"), rapid.SampledFrom([]int{0, 0, 1, 20, 60}).Draw(rt, "slowS")},
			Cap:    rapid.SampledFrom([]int{128, 1024, 65536}).Draw(rt, "cap"),
			Pad:    rapid.SampledFrom([]int{0, 10, 300}).Draw(rt, "pad"),
		}
		for s := 0; s < 2; s++ {
			// a receiver that stops for seconds in the middle of the stream (only with otherwise quick
			// receivers, so that the whole exchange stays below the ping period)
			if sc.SlowMs[s] <= 20 && sc.Send[1-s] > 4 && rapid.IntRange(0, 3).Draw(rt, "stallP") == 0 {
				sc.StallAt[s] = rapid.IntRange(1, sc.Send[1-s]-1).Draw(rt, "stallAt")
				sc.StallMs[s] = rapid.SampledFrom([]int{2500, 4000, 8000}).Draw(rt, "stallMs")
			}
		}
		key, msg := judgeC06Stack(t, sc)
		if key == "inconclusive" {
			st.AddInconclusive()
			return
		}
		if key == "precondition" {
			st.AddForeign("handshake-not-completed-over-real-ws")
			return
		}
		st.Case(sc, (sc.Send[0] > 40 && sc.SlowMs[1] > 0) || (sc.Send[1] > 40 && sc.SlowMs[0] > 0), "full-stack", "receiver-stalls-for-seconds:"+b2s(sc.StallAt[0]+sc.StallAt[1] > 0))
		if key != "" {
			st.Fail(key, msg, sc)
			rt.Fatalf("%s: %s", key, msg)
		}
	})
}

func replayC06Stack(t *testing.T, raw json.RawMessage) (string, string) {
	var sc C06StackScript
	if err := json.Unmarshal(raw, &sc); err != nil {
		return "harness", err.Error()
	}
	k, m := judgeC06Stack(t, sc)
	if k == "precondition" {
		return "", ""
	}
	return k, m
}

func b2s(b bool) string {
	if b {
		return "yes"
	}
	return "no"
}
