package wsfault

import (
	"encoding/json"
	"fmt"
	"runtime"
	"strings"
	"sync"
	"testing"
	"testing/synctest"
	"time"

	"github.com/gorilla/websocket"
	"pgregory.net/rapid"

	"github.com/enbility/ship-go/ws"
	"verifharness/core"
)

// C13Script: one websocket session with one closing cause.
type C13Script struct {
	Out   int    `json:"out"`   // messages written by the connection under test
	In    int    `json:"in"`    // messages sent by the peer
	Ping  bool   `json:"ping"`  // 55 virtual seconds pass in mid-session (ping/pong)
	Cause string `json:"cause"` // none | read | write | peerClose | eof | local | localReason
	K     int    `json:"k"`     // read/write: the k-th operation on the socket (after the opening handshake) fails
	EOF   bool   `json:"eof"`   // read fault returns io.EOF
	Short bool   `json:"short"` // write fault is a short write
	Code  int    `json:"code"`  // peer close code
	After int    `json:"after"` // peerClose/eof/local: the cause happens after this many of the Out+In messages
	Busy  bool   `json:"busy"`  // traffic continues concurrently while the cause happens
	// PeerPing: before its n-th message (1-based, 0 = never) the peer sends a websocket ping; the
	// connection under test answers with a pong, one more write on its socket that can fail
	PeerPing int `json:"peerPing,omitempty"`
}

type c13Result struct {
	Reads, Writes int // socket operations of the connection under test during the session
	Triggered     bool
	Msgs          int
	Errors        []string
	MsgAfterEnd   string // a message delivered after the closure was reported / initiated
	Closed        bool
	ClosedErr     string
	SockCloses    int
	WsGoroutines  string
	Herr          string
	Unreported    string // at a quiescent point after the faulty operation no error had been reported
}

func runC13(sc C13Script) *c13Result {
	res := &c13Result{}
	ca, cb, a, b, err := WSPair(4096)
	if err != nil {
		res.Herr = err.Error()
		return res
	}
	r0, w0, _ := a.counters()
	switch sc.Cause {
	case "read":
		a.SetFaults(Faults{FailReadAt: r0 + sc.K, ReadEOF: sc.EOF})
	case "write":
		a.SetFaults(Faults{FailWriteAt: w0 + sc.K, ShortWrite: sc.Short})
	}
	rec := NewRecorder(a)
	var emu sync.Mutex
	ended := false // closure reported or initiated (set at quiescent points)
	// A message that is already in the read pump's hands while another
	// goroutine closes the connection is concurrent with the closure, not
	// "afterwards": with concurrent traffic one such straggler is tolerated.
	stragglers := 0
	rec.OnMsg = func(m []byte) {
		emu.Lock()
		if ended {
			stragglers++
			if (stragglers > 1 || !sc.Busy) && res.MsgAfterEnd == "" {
				res.MsgAfterEnd = fmt.Sprintf("% x", m)
			}
		}
		emu.Unlock()
	}
	sut := ws.NewWebsocketConnection(ca, "peer-ski")
	// the SHIP layer reacts to a reported error by closing the data connection from inside the report
	rec.OnError = func(error) { sut.CloseDataConnection(4001, "") }
	if sc.Cause == "localHoldRead" {
		a.ArmHoldRead(r0 + 1)
	}
	sut.InitDataProcessing(rec)

	peerDone := make(chan struct{})
	go func() { // the peer reads whatever comes (and answers pings)
		defer close(peerDone)
		for {
			if _, _, err := cb.ReadMessage(); err != nil {
				return
			}
		}
	}()
	var pmu sync.Mutex // gorilla allows one concurrent writer
	peerSend := func(i int) {
		if sc.PeerPing > 0 && i+1 == sc.PeerPing {
			pmu.Lock()
			_ = cb.WriteControl(websocket.PingMessage, []byte("are you there"), time.Now().Add(5*time.Second))
			pmu.Unlock()
			synctest.Wait()
		}
		pmu.Lock()
		_ = cb.SetWriteDeadline(time.Now().Add(5 * time.Second))
		_ = cb.WriteMessage(websocket.BinaryMessage, payload(1, i, 12))
		pmu.Unlock()
	}
	step := 0
	total := sc.Out + sc.In
	cause := func() {
		switch sc.Cause {
		case "peerClose":
			pmu.Lock()
			_ = cb.WriteControl(websocket.CloseMessage, websocket.FormatCloseMessage(sc.Code, "bye"), time.Now().Add(time.Second))
			pmu.Unlock()
		case "eof":
			_ = b.Close()
		case "local":
			sut.CloseDataConnection(4001, "")
			emu.Lock()
			ended = true
			emu.Unlock()
		case "localReason":
			sut.CloseDataConnection(4500, "User close")
			emu.Lock()
			ended = true
			emu.Unlock()
		case "localReasonWriteFault":
			// the write of the close frame itself fails: still a deliberate local close
			_, wn, _ := a.counters()
			a.SetFaults(Faults{FailWriteAt: wn + 1})
			sut.CloseDataConnection(4500, "User close")
			emu.Lock()
			ended = true
			emu.Unlock()
		}
	}
	markIfReported := func() {
		_, errs := rec.Snapshot()
		if len(errs) > 0 {
			emu.Lock()
			ended = true
			emu.Unlock()
			return
		}
		// called at quiescent points: an I/O operation of the connection that has failed by now has
		// been dealt with by the pump it belongs to - the error must have been reported, and whatever
		// the peer sends from here on comes "afterwards"
		r, w, _ := a.counters()
		if (sc.Cause == "write" && w-w0 >= sc.K) || (sc.Cause == "read" && r-r0 >= sc.K) {
			emu.Lock()
			ended = true
			if res.Unreported == "" {
				res.Unreported = fmt.Sprintf("%d reads, %d writes done", r-r0, w-w0)
			}
			emu.Unlock()
		}
	}
	var busy sync.WaitGroup
	if sc.Cause == "localHoldWrite" {
		// the connection is closed on purpose with a reason: the close message reaches the peer, which answers
		// it at once, while the write call of the connection under test has not returned yet
		_, w, _ := a.counters()
		a.ArmHoldWrite(w + 1)
		closed := make(chan struct{})
		go func() { sut.CloseDataConnection(4500, "User close"); close(closed) }()
		select {
		case <-a.HoldingW:
			// the peer's answer is read by the read pump now; its own reply to that answer has to wait for
			// the held write (the websocket library serialises writers) and gives up after a second
			time.Sleep(1500 * time.Millisecond)
			synctest.Wait()

		case <-time.After(time.Second):
		}
		a.ReleaseWrite()
		<-closed
		emu.Lock()
		ended = true
		emu.Unlock()
		synctest.Wait()
		total = 0
	}
	if sc.Cause == "localHoldRead" {
		// a message is read from the socket completely, but before the pump looks at the result
		// the connection is closed locally: the message must not be delivered any more
		peerSend(0)
		select {
		case <-a.Holding:
			sut.CloseDataConnection(4500, "User close")
			emu.Lock()
			ended = true
			emu.Unlock()
		case <-time.After(time.Second):
		}
		a.ReleaseRead()
		synctest.Wait()
		total = 0
	}
	for i := 0; i < total; i++ {
		if !sc.Busy {
			synctest.Wait()
			markIfReported()
		}
		if i == sc.After && sc.Cause != "read" && sc.Cause != "write" && sc.Cause != "none" && sc.Cause != "localHoldRead" && sc.Cause != "localHoldWrite" {
			if sc.Busy {
				busy.Add(1)
				go func() { defer busy.Done(); cause() }()
			} else {
				cause()
				synctest.Wait()
				markIfReported()
			}
		}
		if sc.Ping && i == total/2 {
			time.Sleep(55 * time.Second)
			synctest.Wait()
			markIfReported()
		}
		// alternate directions deterministically
		if (i%2 == 0 && step < sc.Out) || i-step >= sc.In {
			_ = sut.WriteMessageToWebsocketConnection(payload(0, step, 12))
			step++
		} else {
			peerSend(i - step)
		}
	}
	if sc.After >= total && sc.Cause != "read" && sc.Cause != "write" && sc.Cause != "none" && sc.Cause != "localHoldRead" && sc.Cause != "localHoldWrite" {
		synctest.Wait()
		cause()
	}
	busy.Wait()
	synctest.Wait()
	markIfReported()
	// the peer keeps talking for a while: nothing of it may be delivered after the end
	for i := 0; i < 3; i++ {
		peerSend(100 + i)
		synctest.Wait()
	}
	time.Sleep(2 * time.Minute)
	synctest.Wait()

	r1, w1, cl := a.counters()
	res.Reads, res.Writes, res.SockCloses = r1-r0, w1-w0, cl
	switch sc.Cause {
	case "read":
		res.Triggered = res.Reads >= sc.K
	case "write":
		res.Triggered = res.Writes >= sc.K
	default:
		res.Triggered = true
	}
	msgs, errs := rec.Snapshot()
	res.Msgs = len(msgs)
	for _, e := range errs {
		if e == nil {
			res.Errors = append(res.Errors, "<nil>")
		} else {
			res.Errors = append(res.Errors, e.Error())
		}
	}
	closed, cerr := sut.IsDataConnectionClosed()
	res.Closed = closed
	if cerr != nil {
		res.ClosedErr = cerr.Error()
	}
	res.WsGoroutines = wsGoroutines()

	// tear down (after the observations)
	sut.CloseDataConnection(4001, "")
	_ = b.Close()
	_ = a.Close()
	time.Sleep(2 * time.Minute)
	synctest.Wait()
	<-peerDone
	return res
}

// wsGoroutines lists goroutines of the calling goroutine's bubble that are
// inside the ws package (goroutines leaked by earlier, failed cases belong to
// other bubbles and are ignored).
func wsGoroutines() string {
	buf := make([]byte, 4<<20)
	buf = buf[:runtime.Stack(buf, true)]
	gs := strings.Split(string(buf), "\n\n")
	bubble := ""
	if len(gs) > 0 {
		head := strings.SplitN(gs[0], "\n", 2)[0]
		if i := strings.Index(head, "synctest bubble "); i >= 0 {
			bubble = strings.TrimRight(head[i:], "]:")
		}
	}
	var out []string
	for _, g := range gs {
		head := strings.SplitN(g, "\n", 2)[0]
		if bubble == "" || !strings.Contains(head, bubble+"]") && !strings.Contains(head, bubble+",") {
			continue
		}
		if strings.Contains(g, "ship-go/ws.(*WebsocketConnection)") {
			for _, l := range strings.Split(g, "\n") {
				if strings.Contains(l, "ship-go/ws.(*WebsocketConnection).") && !strings.HasPrefix(l, "\t") {
					out = append(out, strings.TrimSpace(l[:strings.LastIndex(l, "(")]))
					break
				}
			}
		}
	}
	return strings.Join(out, "; ")
}

func judgeC13(t *testing.T, sc C13Script) (key, msg string, res *c13Result) {
	core.Journal(sc)
	var mu sync.Mutex
	err := core.Bubble(t, func() {
		r := runC13(sc)
		mu.Lock()
		res = r
		mu.Unlock()
	})
	mu.Lock()
	defer mu.Unlock()
	if core.IsInconclusive(err) {
		return "inconclusive", err.Error(), nil
	}
	if res == nil {
		return "C13/hang", "the session could not finish: " + fmt.Sprint(err), nil
	}
	if res.Herr != "" {
		return "harness", res.Herr, res
	}
	if !res.Triggered || sc.Cause == "none" {
		if err != nil {
			return "C13/leak", "goroutine left blocked after a fault-free session: " + err.Error(), res
		}
		return "", "", res
	}
	deliberate := sc.Cause == "local" || sc.Cause == "localReason" || sc.Cause == "localReasonWriteFault" || sc.Cause == "localHoldRead" || sc.Cause == "localHoldWrite"
	what := fmt.Sprintf("cause %s k=%d (session: %d reads, %d writes)", sc.Cause, sc.K, res.Reads, res.Writes)
	if deliberate {
		if len(res.Errors) > 0 {
			return "C13/error-after-local-close", fmt.Sprintf("%s: a deliberate local close was reported as connection error %q", what, res.Errors[0]), res
		}
	} else {
		if res.Unreported != "" && !sc.Busy {
			return "C13/failure-not-reported-at-once", fmt.Sprintf("%s: the faulty operation had taken place (%s) and everything had come to rest, but no connection error had been reported (the connection went on as if nothing had happened)", what, res.Unreported), res
		}
		if len(res.Errors) == 0 {
			return "C13/no-error-report", fmt.Sprintf("%s: the transport failed / the peer closed but ReportConnectionError was never called", what), res
		}
		for _, e := range res.Errors {
			if e == "<nil>" {
				return "C13/nil-error", what + ": ReportConnectionError(nil)", res
			}
		}
		if !res.Closed || res.ClosedErr == "" {
			return "C13/closed-query", fmt.Sprintf("%s: IsDataConnectionClosed() = (%v, %q), want (true, non-nil)", what, res.Closed, res.ClosedErr), res
		}
	}
	if res.MsgAfterEnd != "" {
		return "C13/message-after-end", fmt.Sprintf("%s: message %s was delivered after the closure", what, res.MsgAfterEnd), res
	}
	if res.WsGoroutines != "" {
		return "C13/pump-alive", fmt.Sprintf("%s: two virtual minutes later goroutines are still inside the ws package: %s", what, res.WsGoroutines), res
	}
	if res.SockCloses == 0 {
		return "C13/socket-not-closed", fmt.Sprintf("%s: the underlying network connection was never closed", what), res
	}
	if err != nil {
		return "C13/leak", what + ": goroutine left blocked: " + err.Error(), res
	}
	return "", "", res
}

func genC13Session(t *rapid.T) C13Script {
	sc := C13Script{
		Out:  rapid.IntRange(0, 6).Draw(t, "out"),
		In:   rapid.IntRange(0, 6).Draw(t, "in"),
		Ping: rapid.IntRange(0, 3).Draw(t, "ping") == 0,
		EOF:  rapid.Bool().Draw(t, "eof"), Short: rapid.Bool().Draw(t, "short"),
		Code: rapid.SampledFrom([]int{1000, 1001, 1006, 4001, 4452, 4500, 3000 + rapid.IntRange(0, 999).Draw(t, "rnd")}).Draw(t, "code"),
		Busy: rapid.IntRange(0, 2).Draw(t, "busy") == 0,
	}
	sc.After = rapid.IntRange(0, sc.Out+sc.In).Draw(t, "after")
	if sc.In > 0 && rapid.IntRange(0, 2).Draw(t, "peerPings") == 0 {
		sc.PeerPing = rapid.IntRange(1, sc.In).Draw(t, "peerPing")
	}
	return sc
}

// TestC13 — transport loss is reported and releases pumps and socket; fault at every k-th read / write.
func TestC13(t *testing.T) {
	st := core.Begin(t, "C13", "wsfault")
	defer st.End()
	rapid.Check(t, func(rt *rapid.T) {
		base := genC13Session(rt)
		// fault-free run: counts the socket operations of this session
		free := base
		free.Cause = "none"
		key, msg, res := judgeC13(t, free)
		if key == "inconclusive" {
			st.AddInconclusive()
			return
		}
		judge := func(sc C13Script) {
			if key != "" {
				return
			}
			var r *c13Result
			key, msg, r = judgeC13(t, sc)
			if key == "inconclusive" {
				key, msg = "", ""
				st.AddInconclusive()
				return
			}
			nt := r != nil && r.Triggered && (sc.K > 1 || sc.Busy || sc.After > 0)
			st.Case(sc, nt, "cause:"+sc.Cause)
			if key != "" {
				st.Fail(key, msg, sc)
				rt.Fatalf("%s: %s", key, msg)
			}
		}
		if key != "" {
			st.Fail(key, msg, free)
			rt.Fatalf("%s: %s", key, msg)
		}
		st.Case(free, false, "cause:none")
		// every k-th read and every k-th write of the session
		for k := 1; k <= res.Reads+1; k++ {
			sc := base
			sc.Cause, sc.K = "read", k
			judge(sc)
		}
		for k := 1; k <= res.Writes+1; k++ {
			sc := base
			sc.Cause, sc.K = "write", k
			judge(sc)
		}
		for _, c := range []string{"peerClose", "eof", "local", "localReason", "localReasonWriteFault", "localHoldRead", "localHoldWrite"} {
			sc := base
			sc.Cause = c
			if c == "localReasonWriteFault" || c == "localHoldRead" || c == "localHoldWrite" {
				// the fault is meant for the close frame itself: no concurrent data write may consume it
				sc.Busy = false
			}
			judge(sc)
		}
	})
}

func replayC13(t *testing.T, raw json.RawMessage) (string, string) {
	var sc C13Script
	if err := json.Unmarshal(raw, &sc); err != nil {
		return "harness", err.Error()
	}
	// with concurrent traffic the interleaving is up to the scheduler: repeat
	n := 1
	if sc.Busy {
		n = 60
	}
	for i := 0; i < n; i++ {
		if k, m, _ := judgeC13(t, sc); k != "" && k != "inconclusive" {
			return k, m
		}
	}
	return "", ""
}
