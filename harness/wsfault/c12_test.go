package wsfault

import (
	"encoding/json"
	"errors"
	"fmt"
	"runtime"
	"sort"
	"strings"
	"sync"
	"sync/atomic"
	"testing"
	"testing/synctest"
	"time"

	"github.com/gorilla/websocket"
	"pgregory.net/rapid"

	"github.com/enbility/ship-go/ws"
	"verifharness/core"
)

// C12Script: concurrent writers racing with a closing event.
type C12Script struct {
	Writers    int    `json:"writers"`
	PerWriter  int    `json:"perWriter"`
	StallAfter int    `json:"stallAfter"` // the peer stops reading after this many frames (-1 = never)
	CloseKind  string `json:"closeKind"`  // local | localReason | peerClose | eof | failWrite
	CloseAfter int    `json:"closeAfter"` // the closing event fires once this many writes were accepted
	Yields     int    `json:"yields"`     // scheduler yields before the closing event
	PeerCode   int    `json:"peerCode"`
	Cap        int    `json:"cap"` // pipe buffer per direction (bytes)
	MsgLen     int    `json:"msgLen"`
	// ReportWaits: the connection error report only returns after every writer has returned
	// (a SHIP layer whose close path is entered by a writer waits the same way)
	ReportWaits bool `json:"reportWaits,omitempty"`
	// PeerAt: the peer sends a message of its own once that many writes were accepted (one entry per
	// message); Replies: the reader answers every incoming message with that many writes from inside
	// HandleIncomingWebsocketMessage, i.e. on the read pump's goroutine, as the SHIP layer does
	PeerAt  []int `json:"peerAt,omitempty"`
	Replies int   `json:"replies,omitempty"`
	// EmptyAt: writer 0's message with this number (1-based, 0 = none) has no bytes at all
	EmptyAt int `json:"emptyAt,omitempty"`
}

type call struct {
	W, Seq     int
	Start, End int64
	Err        string
	Panic      string
	ClosedSeen bool // IsDataConnectionClosed() was true before the call started
	Returned   bool
}

type c12Result struct {
	Calls    []*call
	R        [][]byte
	Hang     int // writers that never returned
	LateErr  bool
	LateDone bool
	Herr     string
}

func payload(w, seq, n int) []byte {
	b := make([]byte, n)
	b[0] = 2
	b[1] = byte(w)
	if n > 2 {
		b[2] = byte(seq)
	}
	for i := 3; i < n; i++ {
		b[i] = byte(w*31 + seq*7 + i)
	}
	return b
}

func runC12(sc C12Script) *c12Result {
	res := &c12Result{}
	ca, cb, a, b, err := WSPair(sc.Cap)
	if err != nil {
		res.Herr = err.Error()
		return res
	}
	rec := NewRecorder(a)
	sut := ws.NewWebsocketConnection(ca, "peer-ski")
	sut.InitDataProcessing(rec)

	// the peer: a raw websocket endpoint that records what it receives
	var rmu sync.Mutex
	peerDone := make(chan struct{})
	go func() {
		defer close(peerDone)
		n := 0
		for {
			typ, data, err := cb.ReadMessage()
			if err != nil {
				return
			}
			if typ == websocket.BinaryMessage {
				rmu.Lock()
				res.R = append(res.R, data)
				rmu.Unlock()
				n++
				if sc.StallAfter >= 0 && n == sc.StallAfter {
					b.SetStall(true)
				}
			}
		}
	}()
	if sc.StallAfter == 0 {
		b.SetStall(true)
	}

	var ticket atomic.Int64
	var mu sync.Mutex
	cond := sync.NewCond(&mu)
	accepted, finished := 0, 0
	if sc.ReportWaits {
		rec.mu.Lock()
		rec.OnError = func(error) {
			mu.Lock()
			for finished < sc.Writers {
				cond.Wait()
			}
			mu.Unlock()
		}
		rec.mu.Unlock()
	}
	var wg sync.WaitGroup
	for w := 0; w < sc.Writers; w++ {
		for s := 0; s < sc.PerWriter; s++ {
			res.Calls = append(res.Calls, &call{W: w, Seq: s})
		}
	}
	// replies written by the reader from inside the delivery of a peer message (writer numbers 200+)
	replyBase := len(res.Calls)
	for i := range sc.PeerAt {
		for s := 0; s < sc.Replies; s++ {
			res.Calls = append(res.Calls, &call{W: 200 + i, Seq: s})
		}
	}
	if sc.Replies > 0 && len(sc.PeerAt) > 0 {
		var delivered atomic.Int64
		rec.mu.Lock()
		rec.OnMsg = func([]byte) {
			i := int(delivered.Add(1)) - 1
			if i >= len(sc.PeerAt) {
				return
			}
			for s := 0; s < sc.Replies; s++ {
				c := res.Calls[replyBase+i*sc.Replies+s]
				closed, _ := sut.IsDataConnectionClosed()
				c.ClosedSeen = closed
				c.Start = ticket.Add(1)
				func() {
					defer func() {
						if r := recover(); r != nil {
							c.Panic = fmt.Sprint(r)
						}
					}()
					if err := sut.WriteMessageToWebsocketConnection(payload(200+i, s, sc.MsgLen)); err != nil {
						c.Err = err.Error()
					}
				}()
				c.End = ticket.Add(1)
				mu.Lock()
				c.Returned = true
				cond.Broadcast()
				mu.Unlock()
			}
		}
		rec.mu.Unlock()
		// the peer's own messages
		go func() {
			for _, at := range sc.PeerAt {
				mu.Lock()
				for accepted < at && finished < sc.Writers {
					cond.Wait()
				}
				mu.Unlock()
				if cb.WriteMessage(websocket.BinaryMessage, []byte{1, 2, 3, 4}) != nil {
					return
				}
			}
		}()
	}
	for w := 0; w < sc.Writers; w++ {
		wg.Add(1)
		go func(w int) {
			defer wg.Done()
			defer func() {
				mu.Lock()
				finished++
				cond.Broadcast()
				mu.Unlock()
			}()
			for s := 0; s < sc.PerWriter; s++ {
				c := res.Calls[w*sc.PerWriter+s]
				closed, _ := sut.IsDataConnectionClosed()
				c.ClosedSeen = closed
				c.Start = ticket.Add(1)
				func() {
					defer func() {
						if r := recover(); r != nil {
							c.Panic = fmt.Sprint(r)
						}
					}()
					msg := payload(w, s, sc.MsgLen)
					if w == 0 && sc.EmptyAt > 0 && s+1 == sc.EmptyAt {
						msg = []byte{}
					}
					if err := sut.WriteMessageToWebsocketConnection(msg); err != nil {
						c.Err = err.Error()
					}
				}()
				c.End = ticket.Add(1)
				mu.Lock()
				c.Returned = true
				if c.Err == "" && c.Panic == "" {
					accepted++
				}
				cond.Broadcast()
				mu.Unlock()
			}
		}(w)
	}
	// the closing event
	closerDone := make(chan struct{})
	go func() {
		defer close(closerDone)
		mu.Lock()
		for accepted < sc.CloseAfter && finished < sc.Writers {
			cond.Wait()
		}
		mu.Unlock()
		for i := 0; i < sc.Yields; i++ {
			runtime.Gosched()
		}
		switch sc.CloseKind {
		case "local":
			sut.CloseDataConnection(4001, "")
		case "localReason":
			sut.CloseDataConnection(4500, "User close")
		case "peerClose":
			_ = cb.WriteControl(websocket.CloseMessage, websocket.FormatCloseMessage(sc.PeerCode, "bye"), time.Now().Add(time.Second))
		case "eof":
			_ = b.Close()
		case "failWrite":
			_, wn, _ := a.counters()
			a.SetFaults(Faults{FailWriteAt: wn + 1})
		}
	}()

	if sc.StallAfter >= 0 {
		// goroutines waiting for a sync.Mutex (held by the pump that is blocked
		// in a socket write) are not durably blocked: neither synctest.Wait nor
		// the virtual clock can get past them. Give the race 25 ms of wall-clock
		// time, then let the peer read again.
		core.RealSleep(25 * time.Millisecond)
	} else {
		synctest.Wait()
	}
	// let the stalled peer drain what is still in the pipe, and let every timeout run out
	b.SetStall(false)
	time.Sleep(2 * time.Minute)
	synctest.Wait()
	mu.Lock()
	for _, c := range res.Calls {
		if !c.Returned && c.Start != 0 {
			res.Hang++
		}
	}
	hung := finished < sc.Writers
	mu.Unlock()
	if !hung {
		// a write that starts after the connection is known to be closed must fail
		if closed, _ := sut.IsDataConnectionClosed(); closed {
			res.LateDone = true
			func() {
				defer func() {
					if r := recover(); r != nil {
						res.LateErr = false
					}
				}()
				res.LateErr = sut.WriteMessageToWebsocketConnection(payload(9, 9, 4)) != nil
			}()
		}
	}
	// tear down
	sut.CloseDataConnection(4001, "")
	_ = b.Close()
	_ = a.Close()
	time.Sleep(2 * time.Minute)
	synctest.Wait()
	rmu.Lock()
	res.R = append([][]byte(nil), res.R...)
	rmu.Unlock()
	return res
}

// pumpWaitsForSocket: the writer pump is alive and blocked inside a socket
// write of the in-memory connection (waiting for buffer space or its virtual
// write deadline). Only then a frozen bubble is an artefact of the virtual
// clock; a pump that is blocked on a lock or channel of the ws package, or that
// is gone, means the blocked writers will never be released.
func pumpWaitsForSocket(full string) bool {
	for _, g := range strings.Split(full, "\n\n") {
		if strings.Contains(g, "ws.(*WebsocketConnection).writeShipPump") {
			return strings.Contains(g, "wsfault.(*Conn).Write")
		}
	}
	return false
}

func judgeC12(t *testing.T, sc C12Script) (key, msg string, res *c12Result) {
	core.Journal(sc)
	var mu sync.Mutex
	err := core.Bubble(t, func() {
		r := runC12(sc)
		mu.Lock()
		res = r
		mu.Unlock()
	})
	mu.Lock()
	defer mu.Unlock()
	if err != nil {
		var w *core.ErrWedge
		if errors.As(err, &w) && pumpWaitsForSocket(w.Full) {
			// the writer pump is alive (blocked in a socket write whose virtual
			// deadline cannot fire while others wait for its mutex): a limit of
			// the virtual clock, not a verdict
			return "inconclusive", "virtual clock frozen by a mutex waiter: " + w.Stack, nil
		}
		var inc *core.ErrInconclusive
		if errors.As(err, &inc) {
			return "inconclusive", inc.Info, nil
		}
		if res == nil {
			return "C12/hang", "the case could not finish: " + err.Error(), nil
		}
		return "C12/leak", "a goroutine was left blocked after the case: " + err.Error(), res
	}
	if res.Herr != "" {
		return "harness", res.Herr, res
	}
	for _, c := range res.Calls {
		if c.Panic != "" {
			return "C12/panic", fmt.Sprintf("write (writer %d, message %d) panicked: %s", c.W, c.Seq, c.Panic), res
		}
	}
	if res.Hang > 0 {
		return "C12/hang", fmt.Sprintf("%d write calls never returned (two virtual minutes after the closing event)", res.Hang), res
	}
	for _, c := range res.Calls {
		if c.ClosedSeen && c.Err == "" {
			return "C12/accepted-after-close", fmt.Sprintf("write (writer %d, message %d) started after the connection was reported closed but returned nil", c.W, c.Seq), res
		}
	}
	if res.LateDone && !res.LateErr {
		return "C12/accepted-after-close", "a write issued long after the closure returned nil", res
	}
	// prefix clause
	idx := map[[2]int]*call{}
	for _, c := range res.Calls {
		idx[[2]int{c.W, c.Seq}] = c
	}
	pos := map[[2]int]int{}
	for i, f := range res.R {
		if len(f) == 0 && sc.EmptyAt > 0 {
			// the one message without bytes
			k := [2]int{0, sc.EmptyAt - 1}
			if _, dup := pos[k]; dup {
				return "C12/duplicate", "the empty message was received twice", res
			}
			if c := idx[k]; c != nil && c.Err != "" {
				return "C12/rejected-but-sent", fmt.Sprintf("the empty message was refused with %q but reached the peer", c.Err), res
			}
			pos[k] = i
			continue
		}
		if len(f) != sc.MsgLen || len(f) < 3 {
			return "C12/corrupt-frame", fmt.Sprintf("peer received a frame of %d bytes, messages have %d", len(f), sc.MsgLen), res
		}
		k := [2]int{int(f[1]), int(f[2])}
		c := idx[k]
		if c == nil || string(payload(k[0], k[1], sc.MsgLen)) != string(f) {
			return "C12/corrupt-frame", fmt.Sprintf("peer received frame #%d which is no submitted message: % x", i, f), res
		}
		if _, dup := pos[k]; dup {
			return "C12/duplicate", fmt.Sprintf("message (writer %d, #%d) was received twice", k[0], k[1]), res
		}
		if c.Err != "" {
			return "C12/rejected-but-sent", fmt.Sprintf("message (writer %d, #%d) was refused with %q but reached the peer", k[0], k[1], c.Err), res
		}
		pos[k] = i
	}
	for _, m := range res.Calls {
		if m.Start == 0 {
			continue
		}
		pm, inM := pos[[2]int{m.W, m.Seq}]
		for _, n := range res.Calls {
			if n.Start == 0 || !(m.End != 0 && m.End < n.Start) {
				continue
			}
			pn, inN := pos[[2]int{n.W, n.Seq}]
			if inM && inN && pm > pn {
				return "C12/reordered", fmt.Sprintf("message (w%d #%d) returned before (w%d #%d) started, but the peer received them in the opposite order", m.W, m.Seq, n.W, n.Seq), res
			}
			if m.Err == "" && inN && !inM {
				return "C12/gap", fmt.Sprintf("message (w%d #%d) was accepted before (w%d #%d) started; the peer received the later one but not the earlier one", m.W, m.Seq, n.W, n.Seq), res
			}
		}
	}
	return "", "", res
}

func genC12(t *rapid.T) C12Script {
	sc := C12Script{
		Writers:   rapid.IntRange(1, 8).Draw(t, "writers"),
		PerWriter: rapid.IntRange(1, 12).Draw(t, "perWriter"),
		CloseKind: rapid.SampledFrom([]string{"local", "localReason", "peerClose", "eof", "failWrite"}).Draw(t, "closeKind"),
		Yields:    rapid.IntRange(0, 5).Draw(t, "yields"),
		PeerCode:  rapid.SampledFrom([]int{1000, 1001, 4001, 4452, 4500}).Draw(t, "peerCode"),
		Cap:       rapid.SampledFrom([]int{16, 64, 1024, 65536}).Draw(t, "cap"),
		MsgLen:    rapid.SampledFrom([]int{3, 8, 40, 200}).Draw(t, "msgLen"),
	}
	total := sc.Writers * sc.PerWriter
	sc.CloseAfter = rapid.IntRange(0, total).Draw(t, "closeAfter")
	sc.ReportWaits = rapid.IntRange(0, 3).Draw(t, "reportWaits") == 0
	sc.StallAfter = -1
	if rapid.Bool().Draw(t, "stall") {
		sc.StallAfter = rapid.IntRange(0, total).Draw(t, "stallAfter")
	}
	if rapid.IntRange(0, 5).Draw(t, "hasEmpty") == 0 {
		sc.EmptyAt = rapid.IntRange(1, sc.PerWriter).Draw(t, "emptyAt")
	}
	if rapid.IntRange(0, 2).Draw(t, "peerTalks") == 0 {
		sc.Replies = rapid.IntRange(1, 3).Draw(t, "replies")
		sc.PeerAt = rapid.SliceOfN(rapid.IntRange(0, total), 1, 3).Draw(t, "peerAt")
		sort.Ints(sc.PeerAt)
	}
	return sc
}

// TestC12 — writes racing with closure: no panic, no hang, error once closed, prefix property.
func TestC12(t *testing.T) {
	st := core.Begin(t, "C12", "wsfault")
	defer st.End()
	rapid.Check(t, func(rt *rapid.T) {
		sc := genC12(rt)
		key, msg, res := judgeC12(t, sc)
		if key == "inconclusive" {
			st.AddInconclusive()
			return
		}
		nt := false
		if res != nil {
			late := 0
			for _, c := range res.Calls {
				if c.Err != "" || c.Panic != "" || !c.Returned {
					late++
				}
			}
			nt = sc.Writers >= 2 && late > 0
		}
		st.Case(sc, nt, "close:"+sc.CloseKind, fmt.Sprintf("stalled-peer:%v", sc.StallAfter >= 0), fmt.Sprintf("reader-replies-from-read-pump:%v", sc.Replies > 0))
		if key != "" {
			st.Fail(key, msg, sc)
			rt.Fatalf("%s: %s", key, msg)
		}
	})
}

func replayC12(t *testing.T, raw json.RawMessage) (string, string) {
	var sc C12Script
	if err := json.Unmarshal(raw, &sc); err != nil {
		return "harness", err.Error()
	}
	k, m, _ := judgeC12(t, sc)
	if k == "inconclusive" {
		return "", ""
	}
	return k, m
}
