// Package wsfault is engine E3: real ws.WebsocketConnection objects over
// gorilla/websocket over an in-memory, fault-injecting net.Conn pair, inside
// a testing/synctest bubble (all deadlines, pings and timeouts are virtual).
package wsfault

import (
	"errors"
	"io"
	"net"
	"os"
	"sync"
	"syscall"
	"time"
)

// half is one direction of the pipe: a bounded byte buffer.
type half struct {
	mu       sync.Mutex
	cond     *sync.Cond
	buf      []byte
	cap      int
	wclosed  bool // writer side closed: reader gets EOF after the buffered data
	rclosed  bool // reader side closed: writes fail
	total    int  // bytes ever written
	consumed int  // bytes ever read
}

func newHalf(capacity int) *half {
	h := &half{cap: capacity}
	h.cond = sync.NewCond(&h.mu)
	return h
}

// Faults is the fault plan of one Conn (all counters are 1-based; 0 = never).
type Faults struct {
	FailReadAt   int  // the k-th Read returns an error
	FailWriteAt  int  // the k-th Write returns an error
	ReadEOF      bool // the failing read returns io.EOF instead of an error
	ShortWrite   bool // the failing write writes half of its data first
	StallReading bool // this endpoint's Reads block (peer sees back-pressure) - set/cleared by the harness
	HoldReadAt   int  // the k-th Read copies its data and then waits for ReleaseRead before it returns
	HoldWriteAt  int  // the k-th Write delivers its data and then waits for ReleaseWrite before it returns
}

// Conn is one end of the in-memory connection.
type Conn struct {
	name   string
	rd, wr *half

	mu        sync.Mutex
	rDeadline time.Time
	wDeadline time.Time
	rTimer    *time.Timer
	wTimer    *time.Timer
	closed    bool

	F        Faults
	held     chan struct{} // closed by ReleaseRead
	Holding  chan struct{} // closed when a read is being held
	HoldingW chan struct{} // closed when a write is being held
	heldW    chan struct{}
	Reads    int
	Writes   int
	Closes   int
	// OnRead is called with the number of bytes consumed so far (for "afterwards" accounting)
}

// the injected failure is what a broken TCP connection gives: a net.Error that is neither a timeout nor temporary
var errInjected error = &net.OpError{Op: "write", Net: "tcp", Err: syscall.EPIPE}

// Pipe creates a connected pair with the given buffer capacity per direction.
func Pipe(capacity int) (*Conn, *Conn) {
	ab, ba := newHalf(capacity), newHalf(capacity)
	return &Conn{name: "a", rd: ba, wr: ab}, &Conn{name: "b", rd: ab, wr: ba}
}

func (c *Conn) counters() (r, w, cl int) {
	c.mu.Lock()
	defer c.mu.Unlock()
	return c.Reads, c.Writes, c.Closes
}

func (c *Conn) Read(p []byte) (int, error) {
	c.mu.Lock()
	c.Reads++
	n := c.Reads
	f := c.F
	closed := c.closed
	c.mu.Unlock()
	if closed {
		return 0, net.ErrClosed
	}
	if f.FailReadAt != 0 && n >= f.FailReadAt {
		if f.ReadEOF {
			return 0, io.EOF
		}
		return 0, errInjected
	}
	h := c.rd
	h.mu.Lock()
	defer h.mu.Unlock()
	for {
		c.mu.Lock()
		closed, dl, stall := c.closed, c.rDeadline, c.F.StallReading
		c.mu.Unlock()
		if closed {
			return 0, net.ErrClosed
		}
		if !dl.IsZero() && !time.Now().Before(dl) {
			return 0, os.ErrDeadlineExceeded
		}
		if !stall {
			if len(h.buf) > 0 {
				k := copy(p, h.buf)
				h.buf = h.buf[k:]
				h.consumed += k
				h.cond.Broadcast()
				if f.HoldReadAt != 0 && n == f.HoldReadAt {
					// the read has completed successfully; its return is delayed until the harness lets go
					// (the channels are taken once, under the lock: ReleaseRead may run at the same time)
					c.mu.Lock()
					held, holding := c.held, c.Holding
					c.mu.Unlock()
					if held != nil {
						h.mu.Unlock()
						close(holding)
						<-held
						h.mu.Lock()
					}
				}
				return k, nil
			}
			if h.wclosed {
				return 0, io.EOF
			}
		}
		h.cond.Wait()
	}
}

func (c *Conn) Write(p []byte) (int, error) {
	c.mu.Lock()
	c.Writes++
	n := c.Writes
	f := c.F
	closed := c.closed
	c.mu.Unlock()
	if closed {
		return 0, net.ErrClosed
	}
	data := p
	var ferr error
	if f.FailWriteAt != 0 && n >= f.FailWriteAt {
		if !f.ShortWrite || n > f.FailWriteAt {
			return 0, errInjected
		}
		data = p[:len(p)/2]
		ferr = errInjected
	}
	h := c.wr
	h.mu.Lock()
	defer h.mu.Unlock()
	written := 0
	for len(data) > 0 {
		c.mu.Lock()
		closed, dl := c.closed, c.wDeadline
		c.mu.Unlock()
		if closed {
			return written, net.ErrClosed
		}
		if h.rclosed {
			return written, errors.New("write: broken pipe")
		}
		if !dl.IsZero() && !time.Now().Before(dl) {
			return written, os.ErrDeadlineExceeded
		}
		free := h.cap - len(h.buf)
		if free > 0 {
			k := min(free, len(data))
			h.buf = append(h.buf, data[:k]...)
			h.total += k
			data = data[k:]
			written += k
			h.cond.Broadcast()
			continue
		}
		h.cond.Wait()
	}
	if f.HoldWriteAt != 0 && n == f.HoldWriteAt {
		// the bytes are on their way to the peer; the call itself returns only when the harness lets go
		// (a write that takes its time while the peer already answers)
		c.mu.Lock()
		held, holding := c.heldW, c.HoldingW
		c.mu.Unlock()
		if held != nil {
			h.mu.Unlock()
			close(holding)
			<-held
			h.mu.Lock()
		}
	}
	return written, ferr
}

// ArmHoldWrite makes the k-th Write (absolute count) deliver its bytes but return only after ReleaseWrite.
func (c *Conn) ArmHoldWrite(k int) {
	c.mu.Lock()
	c.F.HoldWriteAt = k
	c.heldW = make(chan struct{})
	c.HoldingW = make(chan struct{})
	c.mu.Unlock()
}

// ReleaseWrite lets a held write return (and cancels a hold that was not used).
func (c *Conn) ReleaseWrite() {
	c.mu.Lock()
	h := c.heldW
	c.heldW = nil
	c.mu.Unlock()
	if h != nil {
		close(h)
	}
}

func (c *Conn) Close() error {
	c.mu.Lock()
	c.Closes++
	already := c.closed
	c.closed = true
	if c.rTimer != nil {
		c.rTimer.Stop()
	}
	if c.wTimer != nil {
		c.wTimer.Stop()
	}
	c.mu.Unlock()
	if already {
		return net.ErrClosed
	}
	c.wr.mu.Lock()
	c.wr.wclosed = true
	c.wr.cond.Broadcast()
	c.wr.mu.Unlock()
	c.rd.mu.Lock()
	c.rd.rclosed = true
	c.rd.cond.Broadcast()
	c.rd.mu.Unlock()
	return nil
}

// SetStall makes this endpoint stop (or resume) reading.
func (c *Conn) SetStall(on bool) {
	c.mu.Lock()
	c.F.StallReading = on
	c.mu.Unlock()
	c.rd.mu.Lock()
	c.rd.cond.Broadcast()
	c.rd.mu.Unlock()
}

// ArmHoldRead makes the k-th Read (absolute count) complete but return only after ReleaseRead.
func (c *Conn) ArmHoldRead(k int) {
	c.mu.Lock()
	c.F.HoldReadAt = k
	c.held = make(chan struct{})
	c.Holding = make(chan struct{})
	c.mu.Unlock()
}

// ReleaseRead lets a held read return.
func (c *Conn) ReleaseRead() {
	c.mu.Lock()
	h := c.held
	c.held = nil
	c.mu.Unlock()
	if h != nil {
		close(h)
	}
}

// SetFaults replaces the fault plan.
func (c *Conn) SetFaults(f Faults) {
	c.mu.Lock()
	stall := c.F.StallReading
	c.F = f
	c.F.StallReading = stall
	c.mu.Unlock()
}

// Consumed returns the number of bytes this endpoint has read so far.
func (c *Conn) Consumed() int {
	c.rd.mu.Lock()
	defer c.rd.mu.Unlock()
	return c.rd.consumed
}

type addr string

func (a addr) Network() string { return "mem" }
func (a addr) String() string  { return string(a) }

func (c *Conn) LocalAddr() net.Addr  { return addr(c.name) }
func (c *Conn) RemoteAddr() net.Addr { return addr("peer-of-" + c.name) }

func (c *Conn) SetDeadline(t time.Time) error {
	_ = c.SetReadDeadline(t)
	return c.SetWriteDeadline(t)
}

func (c *Conn) SetReadDeadline(t time.Time) error {
	c.mu.Lock()
	defer c.mu.Unlock()
	c.rDeadline = t
	if c.rTimer != nil {
		c.rTimer.Stop()
		c.rTimer = nil
	}
	if !t.IsZero() && !c.closed {
		h := c.rd
		c.rTimer = time.AfterFunc(time.Until(t), func() {
			h.mu.Lock()
			h.cond.Broadcast()
			h.mu.Unlock()
		})
	}
	return nil
}

func (c *Conn) SetWriteDeadline(t time.Time) error {
	c.mu.Lock()
	defer c.mu.Unlock()
	c.wDeadline = t
	if c.wTimer != nil {
		c.wTimer.Stop()
		c.wTimer = nil
	}
	if !t.IsZero() && !c.closed {
		h := c.wr
		c.wTimer = time.AfterFunc(time.Until(t), func() {
			h.mu.Lock()
			h.cond.Broadcast()
			h.mu.Unlock()
		})
	}
	return nil
}
