# Per-property run configuration for ./check (see DESIGN.md section 2).
# runs: engine = package under harness/, test = Go test function,
#       quick/thorough: rapid case count, number of shard processes, timeout (s)

CHECKS = {
    "C07": dict(
        level="exploration",
        rule=("rapid-generated JSON objects (unique keys, depth<=5, width<=5; strings weighted towards JSON-structural characters "
              "and the four textual rewrite patterns; number literals beyond float64; empty containers). Oracles: independent reference "
              "transform (shape), round trip with order/literal-preserving tree equality, end-to-end envelope through two real endpoints. "
              "non-trivial = nesting depth >= 2 and at least one of {string with a structural character, empty container, number outside "
              "float64, array of objects}; distinct = hash of the document text"),
        runs=[
            dict(engine="jsonrt", test="TestC07", quick=dict(checks=200000, shards=4, timeout=600),
                 thorough=dict(checks=8000000, shards=16, timeout=3000)),
        ],
        assumptions=["documents with duplicate member names are not generated (no defined JSON semantics)"],
    ),
}
