# Per-property run configuration for ./check (see DESIGN.md section 2).
# runs: engine = package under harness/, test = Go test function,
#       quick/thorough: rapid case count, number of shard processes, timeout (s)

ADV = ("rapid-generated scripts (trust configuration x 0-40 events) over the E2 alphabet: deliver/drain/drop/dup of the real peer's frames, "
       "inject of well-formed, out-of-phase, structurally mutated and arbitrary SHIP messages and data frames, virtual-time advances "
       "(1 ms .. 5 min), user approve/cancel, trust/waiting flips, local close, transport error, close propagation, application writes, "
       "write failure at the k-th write, a close announce whose confirm cannot be written, the client's init reaching the server before its Run(); two "
       "real ShipConnections (client+server role) joined by a harness man-in-the-middle on the synctest clock. ")

HUB = ("real hub.Hub instances (own certificates) talking TLS+websocket over loopback, each with a real MdnsManager on the harness mDNS fabric; the "
       "entry hub X learns about hub Y points at a per-pair TCP proxy, so every outbound connection is attributable and can be cut or refused; dial "
       "back-off scaled to [0,1) s; schedule sources: slow links (a dial is on its way for as long as the script says), black holes (whole links or the "
       "connections that exist), a slow application logger (lines logged at interleaving points take N ms), slow application callbacks; scenarios run "
       "in real time, 8 at a time per process. ")

CHECKS = {
    "C07": dict(
        level="exploration",
        rule=("rapid-generated JSON objects (unique keys, depth<=5, width<=5; strings weighted towards JSON-structural characters "
              "and the four textual rewrite patterns; number literals beyond float64; empty containers). Oracles: independent reference "
              "transform (shape), round trip with order/literal-preserving tree equality, end-to-end envelope through two real endpoints. "
              "non-trivial = nesting depth >= 2 and at least one of {string with a structural character, empty container, number outside "
              "float64, array of objects}; distinct = hash of the document text"),
        runs=[
            dict(engine="jsonrt", test="TestC07", quick=dict(checks=200000, shards=4, timeout=600),
                 thorough=dict(checks=8000000, shards=12, timeout=3000)),
            dict(engine="shipsim", test="TestC07Envelope", quick=dict(checks=10000, shards=2, timeout=600),
                 thorough=dict(checks=400000, shards=4, timeout=3000)),
            dict(kind="fuzz", engine="jsonrt", test="FuzzEEBUS", tiers=("thorough",), thorough=dict(fuzztime=300)),
        ],
        assumptions=["documents with duplicate member names are not generated (no defined JSON semantics)"],
    ),
    "C14": dict(
        level="exploration",
        rule=("rapid-generated arm/stop/advance sequences (durations 1 ns .. 120 s, advances placed at d-1, d, d+1, stop directly after arm "
              "without yielding) on a real server-role connection in 'pending listen' on the synctest virtual clock; oracle = reference model "
              "'at most one live timer: the last armed and not stopped', observed timeouts (one prolongation frame each) must equal the "
              "modelled instants. non-trivial = a stop or re-arm while a timer is armed; distinct = hash of the op sequence. "
              "TestC14Real: in real time, rounds of 1-4 timers (40-90 ms) armed by concurrent goroutines released together, with a stop "
              "alongside or after them; oracle = at most one timeout per round, none after a stop that followed the arm calls (rounds whose "
              "calls had not returned 10 ms before the shortest timer was due are inconclusive); non-trivial = a round with >= 2 concurrent arms"),
        runs=[
            dict(engine="shipsim", test="TestC14", quick=dict(checks=30000, shards=4, timeout=600),
                 thorough=dict(checks=1000000, shards=16, timeout=3000)),
            dict(engine="shipsim", test="TestC14Real", shrinktime="10s", quick=dict(checks=40, shards=2, timeout=600),
                 thorough=dict(checks=1500, shards=4, timeout=3000)),
        ],
        assumptions=["timeouts are observed through their effect in the pending-listen state (one prolongation request frame per timeout)"],
    ),
    "C01": dict(
        level="exploration",
        rule=ADV + "Oracle: invariant over the ordered callback log (no trusted state / setup / payload before local trust was granted; nothing "
             "after an effective cancel; payload only after setup and completion). non-trivial = server untrusted, reached pending-listen "
             "and >= 2 further events executed; distinct = hash of the script",
        runs=[dict(engine="shipsim", test="TestC01", quick=dict(checks=40000, shards=4, timeout=600),
                   thorough=dict(checks=1600000, shards=12, timeout=3000)),
              # hub level: a real peer keeps knocking while the user registers / cancels / unregisters
              dict(engine="hubnet", test="TestC01Hub", shrinktime="1s", quick=dict(checks=12, shards=4, timeout=1200),
                   thorough=dict(checks=60, shards=4, timeout=6000), env=dict(VERIF_BATCH="8"))],
    ),
    "C04": dict(
        level="exploration",
        rule=ADV + "Oracle: explicit SHIP 1.0.1 edge table per role, phase order, finality after terminal outcomes / closed transport "
             "(no progress state, no armed timer, only closing frames, transport closed, no late activity). non-trivial = reached hello "
             "or later and the run contains a fault, timeout or injected message; distinct = hash of the script",
        runs=[dict(engine="shipsim", test="TestC04", quick=dict(checks=40000, shards=4, timeout=600),
                   thorough=dict(checks=1600000, shards=16, timeout=3000))],
    ),
    "C08": dict(
        level="exploration",
        rule=ADV + "Oracle: no panic escapes a SHIP entry point, the bubble can end (no goroutine blocked for ever). non-trivial = a "
             "hostile message was delivered in state hello or later; distinct = hash of the script; classes = inject per (role, state)",
        runs=[dict(engine="shipsim", test="TestC08", quick=dict(checks=40000, shards=4, timeout=600),
                   thorough=dict(checks=1600000, shards=12, timeout=3000)),
              # websocket level: arbitrary frames (text, binary of any length, fragments, ping/pong, close codes) and raw garbage
              dict(engine="wsfault", test="TestC08WS", quick=dict(checks=4000, shards=2, timeout=600),
                   thorough=dict(checks=200000, shards=2, timeout=3000)),
              # mDNS level: hostile TXT maps / raw TXT items, names, hosts, address lists and ports through both entry paths
              dict(engine="mdnssim", test="TestC08Mdns", quick=dict(checks=6000, shards=2, timeout=600),
                   thorough=dict(checks=300000, shards=2, timeout=3000)),
              # SHIP layer in real time (no bubble): timers armed by the peer / the harness, user actions and transport errors truly
              # concurrent with the handlers, state changes stretched by a slow application logger; no panic, no deadlock
              dict(engine="shipsim", test="TestC08Real", shrinktime="10s", quick=dict(checks=40, shards=2, timeout=900),
                   thorough=dict(checks=1500, shards=4, timeout=4000), env=dict(VERIF_BATCH="32")),
              dict(kind="fuzz", engine="shipsim", test="FuzzShipMessage", tiers=("thorough",), thorough=dict(fuzztime=300)),
              dict(kind="fuzz", engine="mdnssim", test="FuzzTxt", tiers=("thorough",), thorough=dict(fuzztime=180))],
    ),
    "C11": dict(
        level="exploration",
        rule=ADV + "Oracle: HandleConnectionClosed exactly once per connection object by the end of the run, and within ten virtual "
             "minutes of its transport being closed. non-trivial = >= 2 close causes in one run; distinct = hash of the script. "
             "TestC11Hub: 3 real hubs, cuts / half cuts / cancel / unregister / disconnect, restarts behind a dead link, a quarter of the "
             "scenarios with simultaneous dials of both hubs of each pair and a logger that is slow where the replaced connection is "
             "closed or a connection completes (the end of the replaced connection and the set-up of the kept one in either order); "
             "oracle at rest: last of set-up/disconnected is 'set up' exactly when a completed connection is registered, no more "
             "disconnects than connections, both hubs agree",
        runs=[dict(engine="shipsim", test="TestC11", quick=dict(checks=40000, shards=4, timeout=600),
                   thorough=dict(checks=1600000, shards=12, timeout=3000)),
              dict(engine="hubnet", test="TestC11Hub", shrinktime="1s", quick=dict(checks=4, shards=4, timeout=1200),
                   thorough=dict(checks=48, shards=4, timeout=6000), env=dict(VERIF_BATCH="8"))],
    ),
    "C03": dict(
        level="exploration",
        rule=("rapid-generated scheduling-only scripts over two real endpoints (trust configuration incl. user approval/cancel at any position, "
              "known/unknown hostile SHIP IDs; events: FIFO delivery per direction, approve, cancel, virtual-time advance, close propagation). "
              "Timely mode: frames are delivered 1 virtual ms after being written whenever time passes; arbitrary mode: any delays and timer "
              "expiries. Oracle at stability (settle until ten quiet virtual minutes): completion exactly when trust was given (timely), "
              "setup exactly once, SHIP ID learned exactly once, never 'one side complete, the other ended/stuck'. non-trivial = a user "
              "action, advance or close propagation strictly between first and last delivery; distinct = hash of the script"),
        runs=[
            dict(engine="shipsim", test="TestC03Timely", quick=dict(checks=20000, shards=4, timeout=600),
                 thorough=dict(checks=800000, shards=8, timeout=3000)),
            dict(engine="shipsim", test="TestC03Arbitrary", quick=dict(checks=20000, shards=4, timeout=600),
                 thorough=dict(checks=800000, shards=8, timeout=3000)),
        ],
    ),
    "C06": dict(
        level="exploration",
        rule=("rapid-generated scripts over two real endpoints: valid prefix of the handshake, then FIFO deliveries interleaved with valid SPINE "
              "data frames injected towards either side at any position (before, during, after the receiver's remaining handshake) and "
              "application writes after completion. Oracle: reader log of each side == arrival sequence of data frames (same payloads, "
              "same order, each once), nothing before completion, buffered frames first. non-trivial = >= 2 data frames arrived at a side "
              "before it completed and it completed; distinct = hash of the script"),
        runs=[dict(engine="shipsim", test="TestC06", quick=dict(checks=30000, shards=4, timeout=600),
                   thorough=dict(checks=1200000, shards=12, timeout=3000)),
              # full stack: SHIP over the real websocket layer over the in-memory pipe, slow receivers (back pressure)
              dict(engine="wsfault", test="TestC06Stack", quick=dict(checks=1500, shards=4, timeout=600),
                   thorough=dict(checks=60000, shards=4, timeout=3000))],
    ),
    "C09": dict(
        level="exploration",
        rule=("rapid-generated (stored SHIP ID or none) x (presented id: equal, prefix/suffix/case variants, other, empty, missing, null, "
              "ill-typed) for both roles; the man in the middle runs the real handshake up to the access-methods phase and then delivers, "
              "drops or replaces requests and replies in any order, followed by further traffic. Oracle: mismatch/ill-typed => error, closed, "
              "never set up; match => completes, known id not reported, new id reported exactly once before setup. non-trivial = a "
              "variant id or a reply before the request; distinct = hash of the script"),
        runs=[dict(engine="shipsim", test="TestC09", quick=dict(checks=30000, shards=4, timeout=600),
                   thorough=dict(checks=1200000, shards=12, timeout=3000)),
              # hub level: stored SHIP ID (none / correct / wrong, restored through any spelling of the SKI) x who dials x reconnect
              # while the (slow) application is still busy with the notifications of the first connection, on two real hubs
              dict(engine="hubnet", test="TestC09Hub", shrinktime="1s", quick=dict(checks=6, shards=3, timeout=1200),
                   thorough=dict(checks=30, shards=4, timeout=6000), env=dict(VERIF_BATCH="8"))],
    ),
    "C12": dict(
        level="exploration",
        rule=("rapid-generated races on a real ws.WebsocketConnection over gorilla over an in-memory pipe (synctest bubble): 1-8 writer "
              "goroutines x 1-12 messages, peer reading or stalling after r frames (full queue, pump blocked in write), pipe capacity 16 B .. "
              "64 KiB, optionally one empty message and a reader that answers incoming messages with 1-3 writes from inside the delivery, closing event (local close with/without reason, peer close frame, abrupt EOF, failing transport write) placed after "
              "the p-th accepted write with 0-5 scheduler yields. Oracle: every write returns (no panic, no hang), writes started after the "
              "closure fail, and what the peer received is a gap-free prefix consistent with the callers' real-time order (no duplicate, "
              "no corrupt frame, no refused message). non-trivial = >= 2 writers and the close landed before the last write returned; "
              "distinct = hash of the script"),
        runs=[dict(engine="wsfault", test="TestC12", quick=dict(checks=6000, shards=4, timeout=600),
                   thorough=dict(checks=200000, shards=16, timeout=3000))],
        assumptions=["goroutine interleavings inside the websocket layer are sampled by the Go scheduler (amplified by stalls, tiny pipe buffers and yields), not enumerated"],
    ),
    "C13": dict(
        level="fault_enumeration",
        rule=("rapid-generated websocket sessions (0-6 messages each way, optional ping/pong phase after 55 virtual seconds, concurrent "
              "traffic, optionally a ping of the peer whose pong is one more write); each session is first run fault-free to count the R reads and W writes on the socket of the connection under "
              "test, then re-run with the k-th read failing for every k<=R+1 (error or EOF), the k-th write failing for every k<=W+1 "
              "(error or short write), a peer close frame (codes 1000..4999), abrupt EOF, local close with and without reason. Oracle: error "
              "reported (non-nil) and closed-query (true, non-nil) after a failure / peer close, no report after a deliberate local close; "
              "a failed operation has been reported by the time everything has come to rest; no message delivered afterwards; two virtual minutes later no goroutine inside the ws package and the socket was closed. "
              "non-trivial = fault triggered in mid-session (k>1) or concurrent traffic; distinct = hash of (session, cause, k)"),
        runs=[dict(engine="wsfault", test="TestC13", quick=dict(checks=60, shards=4, timeout=600, may_stop_early=False),
                   thorough=dict(checks=3000, shards=16, timeout=3000))],
    ),
    "C16": dict(
        level="exploration",
        rule=("rapid-generated service configurations (brand/model/type/serial/identifier/SKI from any valid UTF-8, lengths around the 32-byte "
              "boundary with multi-byte runes straddling it, characters = ; : , and blanks; category lists nil/empty/1-7/out of range; both "
              "auto-accept values; ports; a life cycle of the announcement - unannounce / announce / auto accept changes - before it is read). Oracles: announced TXT values are <= 32 bytes, prefixes of the input and valid UTF-8; the TXT "
              "pushed through the real Avahi provider path (fake daemon -> parseTxt -> entry processing) of a second manager yields an "
              "entry with equal fields; QRCodeText() parsed by an independent reference parser yields exactly the expected fields. "
              "non-trivial = some field > 32 bytes or containing a separator character; distinct = hash of the configuration"),
        runs=[dict(engine="mdnssim", test="TestC16", quick=dict(checks=20000, shards=4, timeout=600),
                   thorough=dict(checks=800000, shards=16, timeout=3000)),
              # the real zeroconf provider over real multicast sockets: 2-4 managers in one process, announce / withdraw / auto accept
              # histories; what one announces is what the others read (skipped where multicast does not work)
              dict(engine="zcnet", test="TestC16ZC", shrinktime="1s", may_stop_early=True, quick=dict(checks=4, shards=1, timeout=900),
                   thorough=dict(checks=40, shards=2, timeout=6000), env=dict(VERIF_BATCH="3"))],
    ),
    "C17": dict(
        level="exploration",
        rule=("rapid-generated resolver histories (1-30 add / add-again / remove events over 5 services and 7 addresses incl. IPv6 link-local and "
              "duplicates, records with a missing or invalid mandatory field, re-announcements with a changed descriptive value, the local SKI, removes of unknown services), delivered in "
              "bursts without yielding or separated by quiescence, GOMAXPROCS 1/2/16; real MdnsManager (fake provider) reporting into a real "
              "hub.Hub. Oracle: reference model map ski -> (fields of the first valid add, ordered usable address set); the manager's "
              "entries equal the model after every event and the last VisibleRemoteServicesUpdated list equals the final set. "
              "non-trivial = >= 3 state changes and at least one remove; distinct = hash of the event sequence"),
        runs=[dict(engine="mdnssim", test="TestC17", quick=dict(checks=12000, shards=4, timeout=600),
                   thorough=dict(checks=600000, shards=16, timeout=3000)),
              # hub level: real hubs consume the reports (patching fixed IPv4 addresses, dialling); the managers' views must equal what the fabric reported
              dict(engine="hubnet", test="TestC17Hub", shrinktime="1s", quick=dict(checks=4, shards=4, timeout=1200),
                   thorough=dict(checks=40, shards=4, timeout=6000), env=dict(VERIF_BATCH="8")),
              # the real zeroconf provider over real multicast sockets: the managers' views follow announcements and withdrawals
              dict(engine="zcnet", test="TestC17ZC", shrinktime="1s", may_stop_early=True, quick=dict(checks=6, shards=1, timeout=900),
                   thorough=dict(checks=40, shards=2, timeout=6000), env=dict(VERIF_BATCH="3"))],
        assumptions=["removes with invalid TXT for a known service are not generated (neither provider produces them; the statement leaves them open)"],
    ),
    "C19": dict(
        level="exploration",
        rule=("rapid-generated life-cycle scripts (1-25 events: daemon disconnect with/without immediate availability, availability flips, "
              "Announce with 6 TXT variants, Unannounce, manual Shutdown, browse results add/remove at any time incl. during the outage, "
              "a service found while the browser is being freed, virtual-time advances 100 ms .. 5 s; in a third of the cases the announcement is requested "
              "through a real MdnsManager as the hub does) against the real AvahiProvider with a fake Avahi daemon that mirrors go-avahi's Server "
              "(objects invalidated and Disconnected emitted on every connection loss, also on Shutdown()). Oracle: reference model "
              "(desired TXT = latest Announce not followed by Unannounce; manual shutdown flag); whenever the daemon has been reachable "
              "for > 2 virtual seconds: connected, exactly one live browser, the desired announcement present (exactly it on a fresh "
              "connection), a probe service is reported; after Shutdown nothing is created again; Shutdown returns. non-trivial = a "
              "disconnect with an API call or browse result inside the outage; distinct = hash of the script"),
        runs=[dict(engine="mdnssim", test="TestC19", quick=dict(checks=20000, shards=4, timeout=600),
                   thorough=dict(checks=600000, shards=16, timeout=3000))],
        assumptions=["what a continuously connected real daemon does with a second entry group for the same service name cannot be established offline: "
                     "for a re-announce without an intervening disconnect only the presence of the desired announcement is required"],
    ),
    "C15": dict(
        level="exploration",
        rule=("rapid-generated (hub state: none / pending inbound request / completed) x 1-3 operations (register, unregister, disconnect, "
              "cancel, pairing detail, service lookup) x SKI spelling (case per hex digit, dashes and blanks at drawn positions); "
              "differential: the same scenario runs on two fresh pairs of real hubs (TLS+websocket over loopback, harness mDNS fabric), "
              "once with canonical and once with the re-formatted SKI, and the settled observable state (registry of both hubs, handshake "
              "states, pairing detail via both spellings, trust flag, service identity, last setup/disconnect notification on both "
              "applications) must agree after every operation. non-trivial = a connection exists when an operation runs; distinct = hash "
              "of the scenario"),
        runs=[dict(engine="hubnet", test="TestC15", shrinktime="1s", quick=dict(checks=8, shards=4, timeout=900),
                   thorough=dict(checks=40, shards=8, timeout=3000), env=dict(VERIF_BATCH="8"))],
        assumptions=["real time: states are compared only after 1.7 s without any callback or TCP accept (longer than the scaled dial back-off plus the "
                     "delayed notifications); scenarios that do not settle are counted as inconclusive, never as violations"],
    ),
    "C18": dict(
        level="exploration",
        rule=("rapid-generated notification histories on a real hub.Hub inside a synctest bubble (listener fails at once, fake mDNS provider): "
              "for 1-4 SKIs the harness plays the SHIP connections and reports SHIP-legal state sequences (success for both roles, remote "
              "denial, rejection, abort, pending, error at any phase) through HandleShipHandshakeStateUpdate, interleaved across SKIs, with "
              "virtual gaps of 0 / 1 us / 1 ms / 100 ms / 600 ms, and with RegisterRemoteSKI / CancelPairingWithSKI / UnregisterRemoteSKI at "
              "drawn positions; GOMAXPROCS 1/2/16. Oracle: the hub's own state sequence is read back after every call; per SKI the last "
              "notification equals PairingDetailForSki at quiescence and the delivered states form a subsequence of the hub's sequence. "
              "non-trivial = two changes less than 500 ms apart (bubble) / a pair with >= 3 distinct notified states and >= 2 connections (hub level); "
              "distinct = hash of the script. Hub level: C05/C10-style scenarios and deliberate double connections on real hubs; at a stable point the last "
              "ServicePairingDetailUpdate per SKI must equal PairingDetailForSki"),
        runs=[dict(engine="hubsim", test="TestC18", quick=dict(checks=12000, shards=4, timeout=600),
                   thorough=dict(checks=400000, shards=16, timeout=3000)),
              # hub level: real connections make the state changes (double connections, reconnects after cuts, late approvals, cancels
              # and unregisters while a peer keeps knocking); at a stable point the last notification equals PairingDetailForSki
              dict(engine="hubnet", test="TestC18Hub", shrinktime="1s", quick=dict(checks=8, shards=4, timeout=1200),
                   thorough=dict(checks=96, shards=8, timeout=6000), env=dict(VERIF_BATCH="8"))],
        assumptions=["the order in which simultaneously due notification goroutines run is sampled by the Go scheduler (GOMAXPROCS 1/2/16), not enumerated",
                     "hub level (real time): a stable point is 2.4 s without any callback or TCP accept and two equal samples 700 ms apart; scenarios that "
                     "do not settle are inconclusive, never violations"],
    ),
    "C05": dict(
        level="exploration",
        rule=HUB + ("rapid-generated scenarios: SKI order of the two hubs, registration and visibility in any order and timing (incl. all four "
              "at once = simultaneous dials / double connection), optional bystander hub, 0-5 disturbances (DisconnectSKI by either side, TCP cut "
              "of either proxy, refused TCP connections, mDNS disappearance/reappearance, restart of a hub) with pauses 0-1.5 s, then a quiet period; families: "
              "denied first then registered within the linger, graceful close whose confirm never comes, slow disconnect notifications with a redial completing "
              "meanwhile; options: applications that do not let requests wait, upper-case SKIs in TXT records. Oracle "
              "(polled, bound 40 s): both registries hold a completed connection, exactly one TCP connection is alive between the hubs, "
              "numbered payloads cross in both directions through the latest writers; 'quiescent for 6 s and wrong' = violation, ten or more connection attempts after the last "
              "operation without ever a completed connection on both hubs = livelock (violation), otherwise 'still busy at the bound' = inconclusive. non-trivial = both hubs dialled or a disturbance hit an established connection; distinct = hash "
              "of the scenario"),
        runs=[dict(engine="hubnet", test="TestC05", shrinktime="1s", quick=dict(checks=8, shards=4, timeout=1200),
                   thorough=dict(checks=96, shards=8, timeout=6000), env=dict(VERIF_BATCH="8"))],
        assumptions=["liveness is decided up to the bound; silent (black-holed) cuts, which the library only notices after its 50 s ping / 60 s pong timers, "
                     "and hub restarts are not generated"],
    ),
    "C10": dict(
        level="exploration",
        rule=HUB + ("rapid-generated scenarios over three hubs: 5-18 operations (register, unregister, cancel pairing, disconnect, shutdown, mDNS "
              "appear/disappear) with pauses 0-1.6 s, so that operations land inside the back-off window of a pending dial as well as after "
              "it, and focused stories (pairing revoked while the dial is on its way over a slow link, the peer silently gone when the pairing is "
              "removed, cancel while the application is slow and the peer approves); auto accept off. Oracle on the timestamps of TCP accepts at proxy(X->Y) and of the application callbacks: every outbound "
              "connection X->Y and every SetupRemoteDevice(Y) on X happens while Y is registered on X (load-aware grace 400 ms + 4x measured "
              "scheduling overshoot), none after Shutdown() returned, no completed connection to an unregistered SKI at the end. non-trivial "
              "= an unregister/cancel/shutdown was executed after a register; distinct = hash of the scenario"),
        runs=[dict(engine="hubnet", test="TestC10", shrinktime="1s", quick=dict(checks=8, shards=4, timeout=1200),
                   thorough=dict(checks=96, shards=8, timeout=6000), env=dict(VERIF_BATCH="8"))],
        assumptions=["trust established by a hub on its own (auto accept) is not generated: the plain register/unregister model of user intent applies"],
    ),
    "C20": dict(
        level="exploration",
        rule=("all concurrent engines built with -race (GORACE halt_on_error=0, reports collected from log files): (1) hub level: three real "
              "hubs over loopback with a connected core, 8-30 operations (register, unregister, cancel, disconnect, pairing detail, auto "
              "accept, SPINE writes, mDNS appear/disappear, TCP cut, shutdown) most of them issued concurrently from their own goroutines, "
              "then all hubs shut down at the same time; (2) ship level stress: the events of an adversarial script are issued from three "
              "goroutines at once (deliveries, user actions and writes, virtual time so that handshake timers fire) on two real endpoints, "
              "and the real-time run of C08 (timers expiring while handlers run); "
              "(3) websocket write/close races (C12 scenarios); (4) mDNS manager and Avahi provider histories (C17, C19 scenarios). Oracle: "
              "zero data race reports; each report is keyed by the unordered pair of innermost ship-go functions of the two accesses. "
              "non-trivial = >= 2 operations issued concurrently (hub level) / script with >= 4 events (stress); distinct = hash of the script"),
        runs=[
            dict(engine="hubnet", test="TestC20Hub", race=True, shrinktime="1s", quick=dict(checks=9, shards=3, timeout=1500),
                 thorough=dict(checks=60, shards=6, timeout=6000), env=dict(VERIF_BATCH="6")),
            dict(engine="shipsim", test="TestC20Stress", race=True, quick=dict(checks=4000, shards=3, timeout=900),
                 thorough=dict(checks=150000, shards=6, timeout=4000)),
            dict(engine="shipsim", test="TestC08Real", race=True, shrinktime="10s", quick=dict(checks=12, shards=2, timeout=900),
                 thorough=dict(checks=400, shards=4, timeout=4000), env=dict(VERIF_BATCH="32")),
            dict(engine="wsfault", test="TestC12", race=True, quick=dict(checks=600, shards=2, timeout=900),
                 thorough=dict(checks=20000, shards=2, timeout=4000)),
            dict(engine="mdnssim", test="TestC17", race=True, quick=dict(checks=1500, shards=1, timeout=900),
                 thorough=dict(checks=40000, shards=1, timeout=4000)),
            dict(engine="mdnssim", test="TestC19", race=True, quick=dict(checks=1500, shards=1, timeout=900),
                 thorough=dict(checks=40000, shards=1, timeout=4000)),
            dict(engine="zcnet", test="TestC20ZC", race=True, shrinktime="1s", may_stop_early=True, quick=dict(checks=2, shards=1, timeout=900),
                 thorough=dict(checks=30, shards=2, timeout=6000), env=dict(VERIF_BATCH="3")),
        ],
        assumptions=["the race detector only sees races on executed interleavings: sampling with amplification, not enumeration",
                     "mdns/zeroconf.go is exercised over real multicast sockets where the environment provides them (TestC20ZC), else skipped"],
    ),
    "C02": dict(
        level="exploration",
        rule=("rapid-generated peers against a real started hub over real TLS sockets. Inbound: client certificate in {none, library generator "
              "with arbitrary subject strings, hand-built with SKI absent / length 0..40 / 20 arbitrary bytes / 20 bytes copied from another "
              "device's certificate / SHA-1 of its own key} x key type {P-256, P-384, RSA-2048} x TLS max version {1.0, 1.1, 1.2, 1.3} x "
              "offered sub-protocols {none, ship, other, other+ship, SHIP}; the client sends SHIP init + hello and reads. Outbound: a hub is "
              "made to dial (register + mDNS entry) a harness TLS/websocket server presenting a certificate from the same space, dialled SKI "
              "equal or different; in a quarter of the outbound cases a second, honest peer is registered and announced while the first "
              "server still sits 30-240 ms in its TLS handshake (two dials in flight), the first server then optionally presents that "
              "second peer's certificate. Oracle: accepted (SHIP bytes received or a callback naming a SKI) => certificate present, SKI 20 bytes = "
              "SHA-1 of that certificate's public key, TLS >= 1.2, ship offered, attributed SKI = hex of it; generator certificates always "
              "pass; outbound: zero SHIP frames unless presented SKI = dialled SKI and bound to the key. non-trivial = any case with a "
              "certificate; distinct = hash of the case"),
        runs=[dict(engine="certid", test="TestC02Inbound", shrinktime="5s", quick=dict(checks=2000, shards=4, timeout=900),
                   thorough=dict(checks=60000, shards=8, timeout=4000)),
              dict(engine="certid", test="TestC02Outbound", shrinktime="5s", quick=dict(checks=240, shards=4, timeout=900),
                   thorough=dict(checks=6000, shards=8, timeout=4000))],
        assumptions=["a refusal is observed as 'no SHIP byte within 400 ms and no callback'; the loopback handshake takes a few ms"],
    ),
}
