# Per-property run configuration for ./check (see DESIGN.md section 2).
# runs: engine = package under harness/, test = Go test function,
#       quick/thorough: rapid case count, number of shard processes, timeout (s)

CHECKS = {
    "C07": dict(
        level="exploration",
        rule=("rapid-generated JSON objects (unique keys, depth<=5, width<=5; strings weighted towards JSON-structural characters "
              "and the four textual rewrite patterns; number literals beyond float64; empty containers). Oracles: independent reference "
              "transform (shape), round trip with order/literal-preserving tree equality, end-to-end envelope through two real endpoints. "
              "non-trivial = nesting depth >= 2 and at least one of {string with a structural character, empty container, number outside "
              "float64, array of objects}; distinct = hash of the document text"),
        runs=[
            dict(engine="jsonrt", test="TestC07", quick=dict(checks=200000, shards=4, timeout=600),
                 thorough=dict(checks=8000000, shards=16, timeout=3000)),
        ],
        assumptions=["documents with duplicate member names are not generated (no defined JSON semantics)"],
    ),
    "C14": dict(
        level="exploration",
        rule=("rapid-generated arm/stop/advance sequences (durations 1 ns .. 120 s, advances placed at d-1, d, d+1, stop directly after arm "
              "without yielding) on a real server-role connection in 'pending listen' on the synctest virtual clock; oracle = reference model "
              "'at most one live timer: the last armed and not stopped', observed timeouts (one prolongation frame each) must equal the "
              "modelled instants. non-trivial = a stop or re-arm while a timer is armed; distinct = hash of the op sequence"),
        runs=[
            dict(engine="shipsim", test="TestC14", quick=dict(checks=30000, shards=4, timeout=600),
                 thorough=dict(checks=1000000, shards=16, timeout=3000)),
        ],
        assumptions=["timeouts are observed through their effect in the pending-listen state (one prolongation request frame per timeout)"],
    ),
}
